"""C11 — repetitions: enum coverage in all consumers, zero-first/count agreement of get_offsets,
get_extrema corners, apply_repetition sibling family, transform path dependence. (DESIGN §4 C11)"""
import re
from .. import clone, tables, minmax
from ..facts import AnalysisBroken
from ..flow import lvalue_key, is_assign, _strip_casts

EXPLANATION = ('R-EXHAUST: every switch over RepetitionType in clear/copy_from/get_count/get_offsets/get_extrema/print/transform '
               'covers all kinds (defaults frozen). get_offsets: per kind, the first vector written is zero (loops start at '
               'i = j = 0 and every stored expression vanishes there; explicit kinds store an explicit zero pair) and the number '
               'of vectors written equals get_count()\'s expression for that kind. get_extrema: for lattice kinds every appended '
               'vector is a corner a*v1 + b*v2 with a in {0, columns-1}, b in {0, rows-1}, and the corner set is complete for each '
               'combination of columns==1 / rows==1; for explicit kinds the running min/max idiom is consistent. The five '
               'apply_repetition bodies are one family (return if None; get_offsets; clear() before copying; skip the first '
               'offset; count-1 copies, each allocate_clear + copy_from(*this) + translate + append). Repetition::transform: for '
               'each kind and each of the 8 valuations of (magnification != 1, x_reflection, rotation != 0) the executed '
               'statements depend on every parameter that is non-neutral (path enumeration over predicate atoms), and kinds that '
               'cannot represent the image are retagged exactly under that condition. Numeric content of offsets is not decided.')
ASSUMPTIONS = ['Vec2 operators are the usual component-wise ones (vec.hpp, not analysed here)']
XREF_FILES = ['src/repetition.cpp']
RT = 'gdstk::RepetitionType'


def zero_at(e, zero_vars, fn, depth=0):
    """Does expression e vanish when every variable in zero_vars is 0? (structural evaluation)"""
    e = _strip_casts(e)
    if e is None or depth > 8:
        return False
    if e.cv == 0 and e.k != 'DeclRefExpr':
        return True
    if e.k == 'FloatingLiteral':
        return e.fv == 0
    if e.k == 'DeclRefExpr':
        k = 'v%d:%s' % (e.d, e.n)
        if k in zero_vars:
            return True
        # local with a single initialiser
        for v in fn.walk():
            if v.k == 'VarDecl' and v.d == e.d and v.child('init') is not None:
                return zero_at(v.child('init'), zero_vars, fn, depth + 1)
        return False
    if e.k == 'MemberExpr' and e.n in ('x', 'y', ''):
        return zero_at(e.child('base'), zero_vars, fn, depth + 1)
    if e.k in ('BinaryOperator',) and e.op == '*':
        return zero_at(e.child('lhs'), zero_vars, fn, depth + 1) or zero_at(e.child('rhs'), zero_vars, fn, depth + 1)
    if e.k == 'CXXOperatorCallExpr' and e.op == '*':
        a = e.args
        return any(zero_at(x, zero_vars, fn, depth + 1) for x in a)
    if e.k in ('BinaryOperator',) and e.op in ('+', '-'):
        return zero_at(e.child('lhs'), zero_vars, fn, depth + 1) and zero_at(e.child('rhs'), zero_vars, fn, depth + 1)
    if e.k in ('CXXConstructExpr', 'CXXFunctionalCastExpr', 'InitListExpr', 'CXXTemporaryObjectExpr'):
        kids = [c for c in e.c if c is not None]
        return bool(kids) and all(zero_at(c, zero_vars, fn, depth + 1) for c in kids)
    return False


def cstores(stmts):
    """stores through the running output pointer `*c++ = value` in a statement list (in order)."""
    out = []
    for s in stmts:
        for x in s.walk():
            if is_assign(x) and x.op == '=':
                l = x.child('lhs')
                if l.k == 'UnaryOperator' and l.op == '*' and l.child('sub').k == 'UnaryOperator' and l.child('sub').op == 'post++':
                    out.append(x)
    return out


def check_get_offsets(ctx, db):
    f = db.fn('gdstk::Repetition::get_offsets')
    gc = db.fn('gdstk::Repetition::get_count')
    ctx.touch(f)
    ctx.touch(gc)
    vals = tables.enum_values(db, RT)
    sw = tables.switches_on(f, 'RepetitionType')[0]
    swc = tables.switches_on(gc, 'RepetitionType')[0]
    count_expr = {}
    for labels, stmts, top in tables.switch_arms(swc):
        r = next((x for s in stmts for x in s.walk() if x.k == 'ReturnStmt'), None)
        for l in labels:
            count_expr[l] = re.sub(r'<IntegralCast:[^>]*>', '', r.child('value').text()) if r is not None else None
    names = {v: k for k, v in vals.items()}
    n = 0
    for labels, stmts, top in tables.switch_arms(sw):
        for l in labels:
            kind = names.get(l, str(l))
            if kind == 'None':
                continue
            n += 1
            key = 'Repetition::get_offsets/%s' % kind
            loc = top.loc()
            if kind in ('Rectangular', 'Regular'):
                loops = [x for s in stmts for x in s.walk() if x.k == 'ForStmt']
                ok = len(loops) == 2
                zero_vars = set()
                bounds = []
                for L in loops:
                    iv = next((v for v in L.child('init').walk() if v.k == 'VarDecl'), None)
                    ok = ok and iv is not None and iv.child('init') is not None and iv.child('init').cv == 0
                    if iv is not None:
                        zero_vars.add('v%d:%s' % (iv.d, iv.n))
                    c = L.child('cond')
                    ok = ok and c.k == 'BinaryOperator' and c.op == '<'
                    bounds.append(c.child('rhs').text())
                st = cstores(stmts)
                okz = len(st) == 2 and all(zero_at(x.child('rhs'), zero_vars, f) for x in st)
                ctx.check(ok and okz, 'R-ZEROFIRST', key, loc, 'loops start at i = j = 0 and both stored components vanish there: the zero vector is enumerated first',
                          'the first enumerated offset is not the zero vector (loop start / stored expression does not vanish at i = j = 0)')
                want = count_expr.get(l)
                got = '(%s * %s)' % (bounds[0], bounds[1]) if len(bounds) == 2 else '?'
                inc = any(x.k == 'CompoundAssignOperator' and x.op == '+=' and lvalue_key(x.child('lhs')).endswith('.count') and x.child('rhs').text() == 'count' for s in stmts for x in s.walk())
                ctx.check(want == got and inc, 'R-COUNT', key, loc, 'writes columns x rows vectors = get_count() (%s) and advances result.count by it' % want,
                          'number of vectors written (%s) differs from get_count() (%s) or result.count is not advanced by it' % (got, want))
            elif kind in ('ExplicitX', 'ExplicitY'):
                st = cstores(stmts)
                L = next((x for s in stmts for x in s.walk() if x.k == 'ForStmt'), None)
                pre = [x for x in st if L is None or x.pos < L.pos]
                okz = len(pre) == 2 and all(zero_at(x.child('rhs'), set(), f) for x in pre)
                ctx.check(okz, 'R-ZEROFIRST', key, loc, 'an explicit zero pair is written before the listed coordinates')
                ok = L is not None
                if ok:
                    iv = next((v for v in L.child('init').walk() if v.k == 'VarDecl'), None)
                    c = L.child('cond')
                    inl = [x for x in st if x.pos > L.pos]
                    ok = iv.child('init').cv == 1 and c.op == '<' and c.child('rhs').text() == 'count' and len(inl) == 2
                    # exactly one of the two stores per iteration is the coordinate, the other is 0, on the right axis
                    vals_ = [zero_at(x.child('rhs'), set(), f) for x in inl]
                    ok = ok and vals_ == ([False, True] if kind == 'ExplicitX' else [True, False])
                ctx.check(ok and count_expr.get(l) == '(this->coords.count + 1)', 'R-COUNT', key, loc, 'writes 1 + coords.count vectors = get_count(), coordinate on the %s axis' % kind[-1].lower())
            elif kind == 'Explicit':
                calls = [x for s in stmts for x in s.walk() if x.k == 'CXXMemberCallExpr']
                ok = len(calls) >= 2 and calls[0].callee.endswith('append_unsafe') and zero_at(calls[0].args[0], set(), f) and calls[1].callee.endswith('extend') and calls[1].args[0].text() == 'this->offsets'
                ctx.check(ok, 'R-ZEROFIRST', key, loc, 'the zero vector is appended before the listed offsets')
                ctx.check(ok and count_expr.get(l) == '(this->offsets.count + 1)', 'R-COUNT', key, loc, 'writes 1 + offsets.count vectors = get_count()')
    ctx.require('R-COUNT kinds', n, 5)


def corner_of(e, fn, kind, depth=0):
    """Symbolic lattice corner of a Vec2 expression: (a, b) with a,b in {'0','C','R',other text}."""
    e = _strip_casts(e)
    C, R = '(this->columns - 1)', '(this->rows - 1)'
    if e is None or depth > 6:
        return None

    def coef(x):
        x = _strip_casts(x)
        t = re.sub(r'<Integral(Cast|ToFloating):[^>]*>', '', x.text())
        t = re.sub(r'^\(double\)', '', t)
        return {'(this->columns - 1)': 'C', '(this->rows - 1)': 'R'}.get(t, t)
    if e.k in ('CXXFunctionalCastExpr', 'InitListExpr', 'CXXConstructExpr', 'CXXTemporaryObjectExpr'):
        kids = [c for c in e.c if c is not None]
        if len(kids) == 1:
            return corner_of(kids[0], fn, kind, depth + 1)
        if len(kids) == 2:
            out = []
            for comp, k in zip(('x', 'y'), kids):
                k = _strip_casts(k)
                if zero_at(k, set(), fn):
                    out.append('0')
                elif k.k == 'BinaryOperator' and k.op == '*':
                    m = _strip_casts(k.child('rhs'))
                    if m.k == 'MemberExpr' and m.n == comp and m.child('base').text() == 'this->spacing':
                        out.append(coef(k.child('lhs')))
                    else:
                        return None
                else:
                    return None
            return tuple(out)
    if e.k == 'CXXOperatorCallExpr' and e.op == '*':
        a, b = e.args
        v = _strip_casts(b).text()
        if v == 'this->v1':
            return (coef(a), '0')
        if v == 'this->v2':
            return ('0', coef(a))
    if e.k == 'CXXOperatorCallExpr' and e.op == '+':
        x, y = corner_of(e.args[0], fn, kind, depth + 1), corner_of(e.args[1], fn, kind, depth + 1)
        if x and y:
            add = lambda p, q: q if p == '0' else (p if q == '0' else p + '+' + q)
            return (add(x[0], y[0]), add(x[1], y[1]))
    if e.k == 'DeclRefExpr':
        for v in fn.walk():
            if v.k == 'VarDecl' and v.d == e.d and v.child('init') is not None:
                return corner_of(v.child('init'), fn, kind, depth + 1)
    return None


def check_get_extrema(ctx, db):
    f = db.fn('gdstk::Repetition::get_extrema')
    ctx.touch(f)
    vals = tables.enum_values(db, RT)
    sw = tables.switches_on(f, 'RepetitionType')[0]
    n = 0
    for labels, stmts, top in tables.switch_arms(sw):
        for l in labels:
            kind = {v: k for k, v in vals.items()}.get(l)
            if kind not in ('Rectangular', 'Regular'):
                continue
            for c1 in (True, False):
                for r1 in (True, False):
                    env = {'columns == 1': c1, 'rows == 1': r1, 'columns == 0': False, 'rows == 0': False}
                    unknown = []
                    ex = tables.executed(stmts, env, unknown)
                    corners = set()
                    bad = None
                    for s, g in ex:
                        if s.k == 'CXXMemberCallExpr' and (s.callee or '').split('::')[-1] in ('append', 'append_unsafe'):
                            c = corner_of(s.args[0], f, kind)
                            if c is None:
                                bad = s
                            else:
                                corners.add(c)
                    want = {('0', '0')}
                    if not c1:
                        want.add(('C', '0'))
                    if not r1:
                        want.add(('0', 'R'))
                    if not c1 and not r1:
                        want.add(('C', 'R'))
                    n += 1
                    key = 'Repetition::get_extrema/%s/columns%s1,rows%s1' % (kind, '==' if c1 else '>', '==' if r1 else '>')
                    ctx.check(bad is None and corners == want and not unknown, 'R-CORNERS', key, top.loc(),
                              'appended vectors are exactly the lattice corners %s (C = columns-1 along v1/x, R = rows-1 along v2/y)' % sorted(want),
                              'extreme offsets are not the lattice corners: got %s, expected %s%s' % (sorted(corners), sorted(want), '' if bad is None else ' (uninterpretable: %s)' % bad.text()[:60]))
    ctx.require('R-CORNERS branch combinations', n, 8)
    # explicit kinds: an empty list still denotes {0}: no path leaves the arm before something is appended
    for labels, stmts, top in tables.switch_arms(sw):
        for l in labels:
            kind = {v: k for k, v in vals.items()}.get(l)
            if kind not in ('Explicit', 'ExplicitX', 'ExplicitY'):
                continue
            apps = [x for s in stmts for x in s.walk() if x.k == 'CXXMemberCallExpr' and (x.callee or '').split('::')[-1] in ('append', 'append_unsafe')]
            rets = [x for s in stmts for x in s.walk() if x.k == 'ReturnStmt']
            first = min([a.pos for a in apps] + [10 ** 9])
            ctx.check(bool(apps) and not any(r.pos < first for r in rets), 'R-COUNT', 'Repetition::get_extrema/%s/never-empty' % kind, top.loc(),
                      'every path through the arm appends at least one extreme (an empty list denotes the zero vector alone)',
                      'the arm can return without appending any extreme although the repetition denotes at least the zero vector')
    k, roles = minmax.check_minmax(ctx, f, label='Repetition::get_extrema')
    ctx.require('R-MINMAX updates in get_extrema', k, 8)
    # the accumulators that feed the result must include one min and one max per axis used
    rs = sorted(r[0] for r in roles.values())
    ctx.check(rs.count('min') == rs.count('max') and rs.count('min') >= 4, 'R-MINMAX', 'Repetition::get_extrema/min-max-balance', f.loc(), 'explicit kinds keep one running min and one running max per axis (%d + %d)' % (rs.count('min'), rs.count('max')))


from .. import flow as flow_mod


def check_apply_repetition(ctx, db):
    """apply_repetition (five element kinds), decided from the CFG and the affine loop summary - no sibling text is compared:
      none-returns      the only early exit before the offsets are taken is guarded by `repetition.type == None`;
      clears-original   no path from entry to exit avoids repetition.clear() except through that guard;
      clear-before-copy clear() dominates every copy_from (copies carry no repetition);
      count-1-copies    the copy loop runs offsets.count - 1 times, iteration k copies *this, moves the copy by offset k + 1
                        (both components) and appends it once."""
    from .. import loops as LP, deps
    from ..linear import lin_add
    kinds = ['Polygon', 'FlexPath', 'RobustPath', 'Label', 'Reference']
    fns = {k: db.fn('gdstk::%s::apply_repetition' % k) for k in kinds}
    vals = tables.enum_values(db, RT)
    for k, f in fns.items():
        ctx.touch(f)
        g = f.cfg
        key = '%s::apply_repetition' % k
        calls = [c for c in f.walk() if c.k == 'CXXMemberCallExpr']
        go = next((c for c in calls if (c.callee or '') == 'gdstk::Repetition::get_offsets'), None)
        cl = [c for c in calls if (c.callee or '') == 'gdstk::Repetition::clear' and lvalue_key(_strip_casts(c.child('obj'))) == 'this->repetition']
        cps = [c for c in calls if (c.callee or '').endswith('::copy_from') and (c.callee or '').split('::')[-2] == k]
        if go is None or not cps:
            raise AnalysisBroken('%s: get_offsets / copy_from not found' % key)
        guard = None
        for i in f.walk():
            if i.k != 'IfStmt':
                continue
            c = _strip_casts(i.child('cond'))
            if c.k == 'BinaryOperator' and c.op == '==':
                l, r = _strip_casts(c.child('lhs')), _strip_casts(c.child('rhs'))
                ks = {lvalue_key(l), lvalue_key(r)}
                en = [z for z in (l, r) if z.k == 'DeclRefExpr' and z.dk == 'enum']
                if 'this->repetition.type' in ks and en and en[0].cv == vals.get('None') and i.child('then').stmts()[0].k == 'ReturnStmt':
                    guard = i
        ok = guard is not None and g.node_dominates(guard.child('cond'), go)
        ctx.check(ok, 'R-SHAPE', key + '/none-returns', f.loc(), 'returns immediately when there is no repetition (tested on repetition.type, before the offsets are taken)',
                  'the early exit is not `repetition.type == None` (a repetition that denotes only the zero vector is then never cleared)')
        avoid = {x.id for c in cl for x in c.walk()} | {c.id for c in cl}
        if guard is not None:
            avoid |= {x.id for x in guard.child('then').walk()}
        path = g.path_avoiding((g.entry, 0), lambda b, i, nid: b == g.exit and i == -1, lambda b, i, nid: nid in avoid)
        ctx.explored['paths'] += 1
        ctx.check(bool(cl) and path is None, 'R-MUSTPASS', key + '/clears-original', f.loc(), 'every path on which the element had a repetition passes through repetition.clear(): the original keeps none',
                  'a path reaches the end of the function without repetition.clear() although the element had a repetition (%s): the original keeps it and is expanded again' % (g.describe_path(path) if path else 'no clear() call'),
                  path=g.describe_path(path) if path else None)
        ok = bool(cl) and all(go.pos < cl[0].pos < cp.pos and g.node_dominates(cl[0], cp) for cp in cps)
        ctx.check(ok, 'R-PAIRCALL', key + '/clear-before-copy', f.loc(), 'offsets are taken, then the repetition is cleared on every path before any copy is made (copies carry none; the original keeps none)',
                  'repetition.clear() does not dominate the copies (or does not follow get_offsets): copies would carry the repetition / the original keeps it on some path')
        # the copy loop
        cp = cps[0]
        L = LP.enclosing_loop(cp)
        ak = lvalue_key(_strip_casts(go.args[0]))
        if L is None or ak is None:
            raise AnalysisBroken('%s: copy loop not found' % key)
        lp = LP.Loop(f, L)
        trip = lp.trip()
        problems = []
        if trip is None:
            raise AnalysisBroken('%s: copy loop at %s is not a counting loop' % (key, L.loc()))
        if lin_add(trip, {ak + '.count': 1, 1: -1}, -1):
            problems.append('the loop makes %s copies, not offsets.count - 1' % trip)
        if not (LP.unconditional_in(LP_stmt(cp), L) and _strip_casts(cp.args[0]).k == 'UnaryOperator' and _strip_casts(_strip_casts(cp.args[0]).child('sub')).k == 'CXXThisExpr'):
            problems.append('the copy is not an unconditional copy_from(*this)')
        aps = [c for c in L.walk() if c.k == 'CXXMemberCallExpr' and (c.callee or '').split('::')[-1] in ('append', 'append_unsafe') and _strip_casts(c.child('obj')).k == 'DeclRefExpr' and _strip_casts(c.child('obj')).dk == 'param']
        if len(aps) != 1 or not LP.unconditional_in(LP_stmt(aps[0]), L):
            problems.append('the copy is not appended to the result exactly once per iteration')
        # which offset moves copy k: every read of the offsets array inside the loop
        D = deps.Deps(f)
        reads = []
        for x in L.walk():
            ptr = None
            if x.k == 'UnaryOperator' and x.op == '*':
                ptr = x.child('sub')
            elif x.k == 'ArraySubscriptExpr':
                ptr = x.child('base') or x.c[0]
            elif x.k == 'MemberExpr' and x.arrow:
                ptr = x.child('base')
            elif x.k == 'CXXOperatorCallExpr' and x.op == '[]' and lvalue_key(_strip_casts(x.args[0])) == ak:
                reads.append((x, lp.addr(x), 1))
                continue
            if ptr is None:
                continue
            r = D.root_of_ptr(ptr)
            if r is not None and r[0] == ak:
                unit = 2 if LP._pointee(_strip_casts(ptr).t) in ('double',) else 1
                reads.append((x, lp.addr(x) if x.k != 'MemberExpr' else lp.lin(ptr, x), unit))
        if not reads:
            raise AnalysisBroken('%s: the copy loop does not read the offsets' % key)
        comps = set()
        for x, lin, unit in reads:
            if lin is None:
                raise AnalysisBroken('%s: offset access `%s` is not affine in the loop' % (key, x.text()[:40]))
            rest = lin_add(lin, {ak + '.items': 1}, -1)
            bk = rest.pop(LP.K, 0)
            c0 = rest.pop(1, 0)
            if rest or bk != unit or c0 // unit != 1:
                problems.append('copy k is moved by offset %s + %s k (in units of %d scalars): it must be offset k + 1 (offset 0 is the original itself)' % (c0, bk, unit))
            comps.add(c0 % unit if unit == 2 else 'v')
        if not problems and comps not in ({'v'}, {0, 1}):
            problems.append('only component(s) %s of the offset are used' % sorted(comps))
        flow_mod.check_count_underflow(ctx, f, key)
        ctx.check(not problems, 'R-SHAPE', key + '/count-1-copies', f.loc(), 'count - 1 copies of *this are made, copy k moved by offset k + 1 and appended once', '; '.join(problems))


def LP_stmt(n):
    x = n
    while x.parent is not None and x.parent.k not in ('CompoundStmt', 'ForStmt', 'WhileStmt', 'DoStmt', 'IfStmt'):
        x = x.parent
    return x


def cond_norm(c):
    c = _strip_casts(c)
    if c.k == 'BinaryOperator' and c.op in ('&&', '||'):
        return '(%s %s %s)' % (cond_norm(c.child('lhs')), c.op, cond_norm(c.child('rhs')))
    if c.k == 'UnaryOperator' and c.op == '!':
        return '!' + cond_norm(c.child('sub'))
    return tables.atom_text(c)


def check_transform(ctx, db):
    f = db.fn('gdstk::Repetition::transform')
    ctx.touch(f)
    vals = tables.enum_values(db, RT)
    names = {v: k for k, v in vals.items()}
    sw = tables.switches_on(f, 'RepetitionType')[0]
    params = {'magnification': 'magnification != 1', 'x_reflection': 'x_reflection', 'rotation': 'rotation != 0'}
    # documented neutrality: a coordinate list along x is unchanged by a reflection across the x axis
    exempt = {('ExplicitX', 'x_reflection'): 'x coordinates are invariant under reflection across the x axis (and the rotated form maps (c,0), whose reflection is itself)'}
    n = 0
    for labels, stmts, top in tables.switch_arms(sw):
        for l in labels:
            kind = names.get(l)
            if kind in (None, 'None') or l == 'default':
                continue
            for bits in range(8):
                env = {'magnification != 1': bool(bits & 1), 'x_reflection': bool(bits & 2), 'rotation != 0': bool(bits & 4)}
                unknown = []
                ex = tables.executed(stmts, env, unknown)
                ctx.explored['valuations'] += 1
                # variables tainted by each parameter on this path (one-step closure through locals)
                mention = {p: False for p in params}
                taint = {p: {p} for p in params}
                for s, g in ex:
                    if s.k == 'DeclStmt':
                        for v in s.c:
                            if v is not None and v.child('init') is not None:
                                names_in = {x.n for x in v.child('init').walk() if x.k == 'DeclRefExpr'}
                                for p in params:
                                    if names_in & taint[p]:
                                        taint[p].add(v.n)
                    if is_assign(s) and s.child('lhs').k == 'DeclRefExpr':
                        names_in = {x.n for x in s.child('rhs').walk() if x.k == 'DeclRefExpr'}
                        for cond, val in g:
                            if val:
                                names_in |= {x.n for x in cond.walk() if x.k == 'DeclRefExpr'}
                        for p in params:
                            if names_in & taint[p]:
                                taint[p].add(s.child('lhs').n)
                for s, g in ex:
                    writes_data = False
                    for x in s.walk():
                        if is_assign(x):
                            # a store into anything but a plain scalar local: a member of the repetition, an element of a list (through
                            # a cursor, an index or Array::operator[]), a local vector or scratch array
                            l0 = _strip_casts(x.child('lhs'))
                            plain = l0 is not None and l0.k == 'DeclRefExpr' and l0.dk in ('local', 'param') and (l0.ct or l0.t or '').replace('const ', '').strip() in ('double', 'bool', 'uint64_t', 'int64_t', 'int', 'unsigned long', 'long')
                            if not plain:
                                writes_data = True
                    if not writes_data:
                        continue
                    used = {x.n for x in s.walk() if x.k == 'DeclRefExpr'}
                    for p in params:
                        if used & taint[p]:
                            mention[p] = True
                        # control dependence: executed under a true guard that mentions p
                        for cond, val in g:
                            if val and {x.n for x in cond.walk() if x.k == 'DeclRefExpr'} & taint[p]:
                                mention[p] = True
                for p, atom in params.items():
                    if not env[atom]:
                        continue
                    n += 1
                    key = 'Repetition::transform/%s/%s|%s' % (kind, p, ','.join(a for a, v in env.items() if v))
                    if (kind, p) in exempt:
                        ctx.ok('R-DEP', key, top.loc(), 'exempt: ' + exempt[(kind, p)])
                        continue
                    ctx.check(mention[p], 'R-DEP', key, top.loc(), 'with %s the vectors written on this path depend on `%s`' % (atom, p),
                              'for kind %s with {%s}: no statement that rewrites the vectors on this path depends on `%s` — the repetition is not %s' % (
                                  kind, ', '.join(a for a, v in env.items() if v), p, {'magnification': 'scaled', 'x_reflection': 'reflected', 'rotation': 'rotated'}[p]))
            # retagging
            if kind == 'Rectangular':
                st = [x for s in stmts for x in s.walk() if is_assign(x) and x.child('lhs').text() == 'this->type']
                ok = len(st) == 1 and st[0].child('rhs').text().endswith('::Regular') and any(a.k == 'IfStmt' and cond_norm(a.child('cond')) == '(x_reflection || rotation != 0)' for a in st[0].ancestors())
                ctx.check(ok, 'R-TAGUNION', 'Repetition::transform/Rectangular->Regular', top.loc(), 'Rectangular becomes Regular exactly when reflected or rotated')
            if kind in ('ExplicitX', 'ExplicitY'):
                st = [x for s in stmts for x in s.walk() if is_assign(x) and x.child('lhs').text() == 'this->type']
                ok = len(st) == 1 and st[0].child('rhs').text().endswith('::Explicit') and any(a.k == 'IfStmt' and cond_norm(a.child('cond')) == 'rotation != 0' for a in st[0].ancestors())
                sto = [x for s in stmts for x in s.walk() if is_assign(x) and x.child('lhs').text() == 'this->offsets']
                clr = [x for s in stmts for x in s.walk() if x.k == 'CXXMemberCallExpr' and x.text() == 'this->coords.clear()']
                ok = ok and len(sto) == 1 and len(clr) == 1 and clr[0].pos < st[0].pos < sto[0].pos
                ctx.check(ok, 'R-TAGUNION', 'Repetition::transform/%s->Explicit' % kind, top.loc(), '%s becomes Explicit exactly when rotated: coords cleared, tag stored, then offsets stored' % kind)
    ctx.require('R-DEP (kind, parameter, valuation) obligations', n, 50)


# ---------------------------------------------------------------- Repetition::transform as polynomial identities

def norm(t):
    return re.sub(r'<[A-Za-z]+:(?!:)[^>]*>', '', t).replace('gdstk::', '')


def check_transform_algebra(ctx, db):
    """For every kind and every valuation of (magnification != 1, x_reflection, rotation != 0) the statements executed on
    that path are folded into polynomials over {magnification, cos(rotation), sin(rotation), input components}; the stored
    vectors must be identically  m R(rotation) diag(1, +-1) (x, y)  (cos = 1, sin = 0, m = 1 where the valuation says so)."""
    from .. import symdiff as S
    f = db.fn('gdstk::Repetition::transform')
    vals = tables.enum_values(db, RT)
    names = {v: k for k, v in vals.items()}
    sw = tables.switches_on(f, 'RepetitionType')[0]

    def elem_of(e):
        """the generic element an access designates, by element type and in any form (`*p`, `*p++`, `p[i]`, `arr[i]`, `arr.items[i]`):
        '*c' for an element of a coordinate list (double), '*v' for an element of a vector list (Vec2); None for anything else"""
        e0 = _strip_casts(e)
        if e0 is None:
            return None
        is_elem = (e0.k == 'UnaryOperator' and e0.op == '*') or e0.k == 'ArraySubscriptExpr' or (e0.k == 'CXXOperatorCallExpr' and e0.op == '[]')
        if not is_elem:
            return None
        t = (e0.ct or e0.t or '').replace('const ', '').replace('gdstk::', '').replace('&', '').strip()
        if t == 'double':
            return '*c'
        if t == 'Vec2':
            return '*v'
        return None

    class A(S.Algebra):
        def value(self, e, env):
            e0 = _strip_casts(e)
            k_ = elem_of(e0)
            if k_ is not None and k_ in env:
                return env[k_]
            if e0 is not None and e0.k == 'MemberExpr' and e0.n:
                arrow = bool(e0.arrow)
                b = _strip_casts(e0.child('base')) if e0.child('base') is not None else None
                while b is not None and b.k == 'MemberExpr' and not b.n:
                    arrow = arrow or bool(b.arrow)
                    b = _strip_casts(b.child('base')) if b.child('base') is not None else None
                kb = elem_of(b) if not arrow else None
                if arrow and b is not None and 'Vec2' in (b.t or '') + (b.ct or '') and '*v' in env:
                    kb = '*v'
                if kb == '*v' and '*v' in env:
                    v = env['*v']
                    return v[1] if e0.n in ('x', 'u', 're') else v[2]
            return S.Algebra.value(self, e, env)

    def target(alg, lhs, env):
        """(storage key, component or None)"""
        l = _strip_casts(lhs)
        if l.k == 'DeclRefExpr':
            return l.n, None
        k_ = elem_of(l)
        if k_ is not None:
            return k_, None
        if l.k == 'MemberExpr':
            arrow = bool(l.arrow)
            b = _strip_casts(l.child('base')) if l.child('base') is not None else None
            while b is not None and b.k == 'MemberExpr' and not b.n:
                arrow = arrow or bool(b.arrow)
                b = _strip_casts(b.child('base')) if b.child('base') is not None else None
            comp = {'x': 1, 'u': 1, 're': 1, 'y': 2, 'v': 2, 'im': 2}.get(l.n)
            if b is None or b.k == 'CXXThisExpr':
                return l.n, None
            if comp and not arrow and elem_of(b) == '*v':
                return '*v', comp
            if comp and arrow and 'Vec2' in (b.t or '') + (b.ct or ''):
                return '*v', comp
            if comp and b.k == 'DeclRefExpr':
                return ('*' + b.n) if arrow else b.n, comp
            if comp and b.k == 'MemberExpr':
                bb = _strip_casts(b.child('base')) if b.child('base') is not None else None
                while bb is not None and bb.k == 'MemberExpr' and not bb.n:
                    bb = _strip_casts(bb.child('base')) if bb.child('base') is not None else None
                if bb is None or bb.k == 'CXXThisExpr':
                    return b.n, comp
        raise S.Unsupported('assignment target `%s`' % lhs.text()[:40])

    ALIAS = {'spacing': 'v1', 'v1': 'spacing'}     # Repetition's anonymous union: `spacing` and `v1` are the same storage

    def store(alg, env, key, comp, val):
        if comp is None:
            env[key] = val
        else:
            cur = env.get(key)
            if cur is None or not alg.isvec(cur):
                cur = alg.vec(S.P(0), S.P(0))
            env[key] = alg.vec(val, cur[2]) if comp == 1 else alg.vec(cur[1], val)
        if key in ALIAS:
            env[ALIAS[key]] = env[key]          # a store through one union member is seen through the other

    IGNORE_CALLS = ('ensure_slots', 'clear')
    n = 0
    for labels, stmts, top in tables.switch_arms(sw):
        for l in labels:
            kind = names.get(l)
            if kind in (None, 'None') or l == 'default':
                continue
            for bits in range(8):
                mag, refl, rot = bool(bits & 1), bool(bits & 2), bool(bits & 4)
                envc = {'magnification != 1': mag, 'x_reflection': refl, 'rotation != 0': rot}
                alg = A(db, None)
                m_ = S.atom('magnification') if mag else S.P(1)
                env = {'magnification': m_, 'x_reflection': S.P(int(refl))}
                if not rot:
                    env['rotation'] = S.P(0)
                x_, y_ = S.atom('x'), S.atom('y')
                if kind == 'Rectangular':
                    env['spacing'] = alg.vec(S.atom('sx'), S.atom('sy'))
                elif kind == 'Regular':
                    env['v1'] = alg.vec(S.atom('ax'), S.atom('ay'))
                    env['v2'] = alg.vec(S.atom('bx'), S.atom('by'))
                elif kind == 'Explicit':
                    env['*v'] = alg.vec(x_, y_)
                else:
                    env['*c'] = S.atom('c')
                    env['*v'] = alg.vec(S.P(0), S.P(0))
                retag = None
                try:
                    for s, g in tables.executed(stmts, envc, []):
                        if s.k == 'DeclStmt':
                            for v in s.c:
                                if v is None or v.k != 'VarDecl' or v.child('init') is None:
                                    continue
                                if '*' in (v.t or '') or 'Array<' in (v.t or '') or not re.search(r'double|Vec2', v.t or ''):
                                    continue   # cursors / scratch arrays (elements are modelled by '*name'), loop counters
                                env[v.n] = alg.value(v.child('init'), env)
                        elif is_assign(s) or s.k == 'CompoundAssignOperator' or (s.k == 'CXXOperatorCallExpr' and s.op in ('*=',)):
                            lhs = s.args[0] if s.k == 'CXXOperatorCallExpr' else s.child('lhs')
                            rhs = s.args[1] if s.k == 'CXXOperatorCallExpr' else s.child('rhs')
                            lt = norm(lhs.text())
                            if lt in ('this->type',):
                                retag = norm(rhs.text()).split('::')[-1]
                                continue
                            if lt in ('this->offsets', 'v151.count') or lt.endswith('.count'):
                                continue
                            key, comp = target(alg, lhs, env)
                            val = alg.value(rhs, env)
                            if s.op in ('*=',):
                                cur = env.get(key)
                                if cur is None:
                                    raise S.Unsupported('compound update of unknown `%s`' % key)
                                if comp is not None:
                                    cur = cur[comp]
                                val = alg.vmul(cur, val)
                            elif s.op != '=':
                                raise S.Unsupported('operator %s' % s.op)
                            store(alg, env, key, comp, val)
                        elif s.k == 'CXXMemberCallExpr' and (s.callee or '').split('::')[-1] in IGNORE_CALLS:
                            continue
                        elif s.k in ('BreakStmt', 'ReturnStmt', 'NullStmt'):
                            continue
                        elif s.k in ('BinaryOperator', 'UnaryOperator', 'ImplicitCastExpr', 'ParenExpr') or s.parent is not None and s.parent.k in ('ForStmt', 'IfStmt'):
                            continue   # loop headers / conditions
                        else:
                            raise S.Unsupported('statement %s `%s`' % (s.k, s.text()[:40]))
                except S.Unsupported as e:
                    raise AnalysisBroken('Repetition::transform/%s is outside the algebra: %s' % (kind, e))
                C_ = alg.fatom('cos', S.atom('rotation')) if rot else S.P(1)
                Sn = alg.fatom('sin', S.atom('rotation')) if rot else S.P(0)
                rho = S.P(-1) if refl else S.P(1)

                def T(v):
                    x, y = v[1], v[2]
                    return alg.vec(S.mul(m_, S.add(S.mul(C_, x), S.mul(S.mul(Sn, rho), y), -1)), S.mul(m_, S.add(S.mul(Sn, x), S.mul(S.mul(C_, rho), y))))
                pairs = []
                z = S.P(0)
                if kind == 'Rectangular':
                    if retag == 'Regular':
                        pairs = [(env.get('v1'), T(alg.vec(S.atom('sx'), z))), (env.get('v2'), T(alg.vec(z, S.atom('sy'))))]
                    else:
                        sp = env['spacing']
                        pairs = [(alg.vec(sp[1], z), T(alg.vec(S.atom('sx'), z))), (alg.vec(z, sp[2]), T(alg.vec(z, S.atom('sy'))))]
                elif kind == 'Regular':
                    pairs = [(env['v1'], T(alg.vec(S.atom('ax'), S.atom('ay')))), (env['v2'], T(alg.vec(S.atom('bx'), S.atom('by'))))]
                elif kind == 'Explicit':
                    pairs = [(env['*v'], T(alg.vec(x_, y_)))]
                elif kind == 'ExplicitX':
                    pairs = [((env['*v'] if retag == 'Explicit' else alg.vec(env['*c'], z)), T(alg.vec(S.atom('c'), z)))]
                elif kind == 'ExplicitY':
                    pairs = [((env['*v'] if retag == 'Explicit' else alg.vec(z, env['*c'])), T(alg.vec(z, S.atom('c'))))]
                n += 1
                ctx.explored['valuations'] += 1
                bad = next(((got, want) for got, want in pairs if got is None or not alg.equal(got, want)), None)
                key = 'Repetition::transform/%s/algebra|%s' % (kind, ','.join(a for a, v in envc.items() if v) or 'identity')
                ctx.check(bad is None, 'R-ALGEBRA', key, top.loc(), 'stored vectors are identically m R(rotation) diag(1, %s1) applied to the originals' % ('-' if refl else '+'),
                          None if bad is None else 'for kind %s with {%s} the stored vector is %s, the affine map gives %s' % (kind, ', '.join(a for a, v in envc.items() if v), alg.render(bad[0]) if bad[0] is not None else 'unset', alg.render(bad[1])))
    ctx.require('R-ALGEBRA transform valuations', n, 40)


def check_reference_maps_repetitions(ctx, db):
    """R-MUSTPASS: an element handed on through a reference keeps its own repetition (apply_repetitions = false); its vectors must
    then be mapped by the linear part of the reference. In every Reference::get_* collector each element appended to the result
    is, on every path to the append, passed through `X->repetition.transform(magnification, x_reflection, rotation)` of that
    same element X (CFG dominance; the copy and the moved original alike)."""
    n = 0
    for name in ('get_polygons', 'get_flexpaths', 'get_robustpaths', 'get_labels'):
        f = db.fn('gdstk::Reference::' + name)
        ctx.touch(f)
        g = f.cfg
        apps = [c for c in f.walk() if c.k == 'CXXMemberCallExpr' and (c.callee or '').split('::')[-1] in ('append', 'append_unsafe') and c.child('obj') is not None
                and lvalue_key(_strip_casts(c.child('obj'))) and f.param('result') is not None and lvalue_key(_strip_casts(c.child('obj'))).endswith(':result') and c.args]
        trs = [c for c in f.walk() if c.k == 'CXXMemberCallExpr' and (c.callee or '') == 'gdstk::Repetition::transform' and c.child('obj') is not None]
        for a in apps:
            k = lvalue_key(_strip_casts(a.args[0]))
            if k is None:
                continue
            n += 1
            mine = [t for t in trs if lvalue_key(_strip_casts(t.child('obj'))) == k + '->repetition']
            want = ['this->magnification', 'this->x_reflection', 'this->rotation']
            good = [t for t in mine if [lvalue_key(_strip_casts(x)) for x in t.args] == want and g.node_dominates(t, a)]
            ctx.check(bool(good), 'R-MUSTPASS', 'Reference::%s/repetition-mapped@%d' % (name, a.l), a.loc(), 'every element appended passes through repetition.transform(magnification, x_reflection, rotation) on every path',
                      'an element reaches the result at %s on a path that does not map its own repetition by the linear part of the reference (%d transform calls on it, none dominating): its repetition vectors stay in the coordinates of the referenced cell' % (a.loc(), len(mine)))
    ctx.require('R-MUSTPASS reference collectors', n, 4)


def check_extrema_model(ctx, db):
    """Repetition::get_extrema and Repetition::get_offsets interpreted (sa/minieval) on small repetitions of every kind - lattices
    with one and several rows / columns and spacings / vectors of both signs, explicit lists that are empty, single, ascending,
    descending, all negative, with the extreme first or last, and 2-D lists whose y extreme is passed in x later on. Required: the
    extreme offsets are members of the displacement set and span exactly its bounding box (the origin included), for a fresh
    result array. Whatever loops, helpers and tests produce them."""
    from .. import minieval as M
    ex, of = db.fn('gdstk::Repetition::get_extrema'), db.fn('gdstk::Repetition::get_offsets')
    ctx.touch(ex)
    ctx.touch(of)
    rt = {c['n']: c['v'] for c in db.enum(RT)['consts']}
    V = lambda x, y: M.Obj(x=x, y=y)
    cases = []
    for cols, rows in ((1, 1), (1, 3), (3, 1), (2, 3), (3, 2)):
        for sx, sy in ((2, 3), (-2, 3), (2, -3)):
            cases.append(('Rectangular %dx%d spacing (%d, %d)' % (cols, rows, sx, sy), dict(type=rt['Rectangular'], columns=cols, rows=rows, spacing=V(sx, sy))))
        for v1, v2 in (((2, 1), (-1, 3)), ((-2, -1), (1, -3)), ((2, 0), (0, 3)), ((1, 2), (3, 1))):
            cases.append(('Regular %dx%d v1 %s v2 %s' % (cols, rows, v1, v2), dict(type=rt['Regular'], columns=cols, rows=rows, v1=V(*v1), v2=V(*v2))))
    for cs in ([], [4], [-7, 2, 3], [9, 3, 1], [-6, -1, -3], [1, 5, 9], [3, -2], [5, 5], [2, -8, 6, -1]):
        for kind in ('ExplicitX', 'ExplicitY'):
            cases.append(('%s %s' % (kind, cs), dict(type=rt[kind], coords=cs)))
    for os_ in ([], [(1, 1)], [(-5, -7), (-6, 0)], [(1, 1), (5, 9), (8, 2)], [(3, -4), (-2, 6), (7, 1)], [(-1, -1), (-2, -3)], [(2, 2), (2, 2)], [(4, 9), (6, -1), (-3, 2), (-8, -8)]):
        cases.append(('Explicit %s' % os_, dict(type=rt['Explicit'], offsets=os_)))
    bad = []

    def run(fn, spec, prefill=0):
        this = M.Obj(type=spec['type'])
        for k_ in ('columns', 'rows', 'spacing', 'v1', 'v2'):
            if k_ in spec:
                this[k_] = M.Obj(spec[k_]) if isinstance(spec[k_], M.Obj) else spec[k_]
        if 'coords' in spec:
            this['coords'] = M.Obj(items=M.Ptr(list(spec['coords']), 0) if spec['coords'] else 0, count=len(spec['coords']), capacity=len(spec['coords']))
        if 'offsets' in spec:
            lst = [V(*p_) for p_ in spec['offsets']]
            this['offsets'] = M.Obj(items=M.Ptr(lst, 0) if lst else 0, count=len(lst), capacity=len(lst))
        pre = [V(90 + k_, 80 + k_) for k_ in range(prefill)]
        res = M.Obj(items=M.Ptr(pre, 0) if pre else 0, count=len(pre), capacity=len(pre))
        ref = [None]
        mi = M.Mini(db, hook=M.array_hook(ref), budget=50000)
        mi.obj_store = True
        ref[0] = mi
        if pre:
            mi.writable.add(id(pre))
        env = {'this': this, fn.params[0]['n']: res}
        try:
            mi.run(fn.body, env)
        except M.Return:
            pass
        it = res.get('items', 0)
        return [(it.arr[it.i + k_].get('x', 0), it.arr[it.i + k_].get('y', 0)) for k_ in range(res.get('count', 0))] if isinstance(it, M.Ptr) else []
    for label, spec in cases:
        try:
            e_, o_ = run(ex, spec), run(of, spec)
        except M.OutOfBounds as x_:
            bad.append('%s: %s' % (label, x_))
            continue
        try:
            o2 = run(of, spec, prefill=2)
        except M.OutOfBounds as x_:
            o2 = str(x_)
        if o2 != [(90, 80), (91, 81)] + o_:
            bad.append('%s: get_offsets on an array that already holds 2 entries leaves %s, expected them followed by %s' % (label, o2 if isinstance(o2, str) else o2[:6], o_[:4]))
        if not o_:
            if e_:
                bad.append('%s: no displacement at all, but extrema %s' % (label, e_))
            continue
        box = lambda ps: (min(p_[0] for p_ in ps), min(p_[1] for p_ in ps), max(p_[0] for p_ in ps), max(p_[1] for p_ in ps))
        if not e_ or box(e_) != box(o_) or any(p_ not in o_ for p_ in e_):
            bad.append('%s: the displacements are %s (box %s), get_extrema gives %s%s' % (label, o_[:8], box(o_), e_, '' if not e_ or box(e_) == box(o_) else ' (box %s)' % (box(e_),)))
    ctx.explored['valuations'] += 2 * len(cases)
    ctx.check(not bad, 'R-CORNERS', 'Repetition::get_extrema/spans-the-displacements', ex.loc(), 'interpreted on %d repetitions: the extreme offsets are displacements and span the bounding box of all displacements' % len(cases),
              'extreme offsets are wrong: ' + '; '.join(bad[:3]))
    ctx.require('R-CORNERS repetitions interpreted', len(cases), 50)


def run(ctx):
    db = ctx.db
    ctx.attempt(check_extrema_model, ctx, db)
    ctx.attempt(check_reference_maps_repetitions, ctx, db)
    frozen = {('gdstk::Repetition::transform', 0): ['Rectangular', 'Regular', 'Explicit', 'ExplicitX', 'ExplicitY']}
    ns = 0
    for name in ('copy_from', 'get_count', 'get_offsets', 'get_extrema', 'print', 'transform'):
        f = db.fn('gdstk::Repetition::' + name)
        ctx.touch(f)
        ns += tables.check_exhaustive(ctx, db, f, RT, frozen_default=frozen)
    ctx.require('R-EXHAUST switches', ns, 6)
    f = db.fn('gdstk::Repetition::clear')
    txt = clone.canon(f.body, f)
    ok = 'RepetitionType::Explicit)' in txt and 'this->offsets.clear()' in txt and 'ExplicitX' in txt and 'ExplicitY' in txt and 'this->coords.clear()' in txt and 'memset' in txt
    ctx.check(ok, 'R-EXHAUST', 'Repetition::clear/owning-kinds', f.loc(), 'clear releases the arrays of the three explicit kinds and zeroes the object')
    ctx.attempt(check_get_offsets, ctx, db)
    ctx.attempt(check_get_extrema, ctx, db)
    ctx.attempt(check_apply_repetition, ctx, db)
    ctx.attempt(check_transform, ctx, db)
    ctx.attempt(check_transform_algebra, ctx, db)
    # copies made by apply_repetition are built with the element's copy_from: every field copied from the same field
    from .. import copyrule
    from . import C06
    n = 0
    for qn, rect, exempt, shallow in C06.COPY_TARGETS[:5]:
        f = db.fn(qn)
        ctx.touch(f)
        src = f.params[0]
        n += copyrule.check_copy(ctx, db, 'R-COPY', qn, f.loc(), rect, f.body, 'this', 'v%d:%s' % (src['d'], src['n']), exempt, shallow)
    ctx.require('R-COPY element fields', n, 40)


MANIFEST = dict(
    text='Decides structural necessary conditions for all repetition kinds: exhaustive kind coverage in every consumer; get_offsets writes the zero vector first and exactly get_count() vectors per kind; get_extrema returns exactly the lattice corners for each columns/rows degeneracy combination (symbolic corner algebra) and keeps a consistent running min/max for explicit kinds; the five apply_repetition bodies are one clone family with clear() dominating every copy and count-1 copies from the second offset, and the five element copy_from functions they use copy every field from the same field of the source (owning fields through their copier); Repetition::transform depends, on every one of the 8 parameter valuations and for every kind, on each non-neutral parameter (path enumeration over predicate atoms), retags exactly when the kind cannot represent the image, and - folding the statements executed on each of the 40 (kind, valuation) paths into polynomials over magnification, cos/sin(rotation) and the input components - stores exactly m R(rotation) diag(1, +-1) applied to the original vectors. Numeric values of offsets/extremes are not decided. Repetition::get_extrema and get_offsets are interpreted on 61 small repetitions of every kind: the extremes are members of the displacement set and span exactly its bounding box; every Reference::get_* passes each appended element through repetition.transform of that element (R-MUSTPASS).',
    note='Trusted: clang front end, gx, sa rules; exemption: ExplicitX is invariant under x-reflection (stated in the checker). Corner algebra recognises Vec2{a,b}, k*v, v+w and single-initialiser locals only; anything else is reported as uninterpretable (violation naming the expression).',
    technique='enum exhaustiveness + symbolic per-arm evaluation + predicate-atom path enumeration (dependence) + clone families + interpretation of get_extrema / get_offsets on small repetitions (sa/minieval) + CFG dominance (R-MUSTPASS)',
    design='§4 C11')
