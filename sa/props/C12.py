"""C12 — fracture and slice: limit guard, piece inheritance, work-loop progress, cut index bounded by
the indexed array, slice strip chaining and per-interval output slot, writer call sites."""
import re
from .. import clone, tables
from ..facts import AnalysisBroken
from ..flow import lvalue_key, is_assign, _strip_casts
from . import C05

EXPLANATION = ('fracture: returns immediately for max_points <= 4; the final loop gives every piece the tag, a copy of the repetition '
               'and a copy of the properties; the work loop advances only past pieces with count <= max_points and replaces a larger '
               'piece (remove_unordered at the same index) by its slices; the cut index j*frac addresses interior_coords with frac = '
               'interior_coords.count / (num_cuts + 1), j <= num_cuts (so the index stays inside the array it addresses); the slice '
               'output array has cuts.count + 1 bins and all of them are collected. slice: strip i runs from the previous cut to the '
               'next (the variable carrying the previous position is assigned from the previous iteration\'s cut), empty strips are '
               'skipped without disturbing later bins (results go to result[i], indexed by the loop variable), the clip is an '
               'intersection with non-zero fill, positions are rounded with llround(scaling x position). The three vertex-limit '
               'blocks of Cell::to_gds are clones and route every piece through Polygon::to_gds. Region preservation, non-overlap, '
               'termination of re-slicing and the vertex bound are not decided (value dependent).')
ADVISORY = [('R-DEP', r'^slice/strip-chaining'), ('R-CLONE', r'^Cell::to_gds vertex-limit blocks/')]
ASSUMPTIONS = ['Clipper intersection semantics (external)']
XREF_FILES = ['src/polygon.cpp', 'src/clipper_tools.cpp', 'src/cell.cpp']
norm = C05.norm


def check_fracture(ctx, db):
    f = db.fn('gdstk::Polygon::fracture')
    ctx.touch(f)
    ren = clone.Renamer(f, params_by_name=True)
    body = [s for s in f.body.c if s is not None]
    first = body[0]
    ok = first.k == 'IfStmt' and norm(first.child('cond').text(ren)) == '($max_points <= 4)' and first.child('then').k == 'ReturnStmt'
    ctx.check(ok, 'R-SHAPE', 'fracture/limit-guard', f.loc(), 'a limit below five leaves the polygon alone (immediate return)')
    from .. import loops as LP
    LOOPK = ('ForStmt', 'WhileStmt', 'DoStmt')
    # the work loop: the outermost loop that slices; the inheritance loop: the loop that copies the properties to every piece
    work = next((l for l in f.walk() if l.k in LOOPK and LP.enclosing_loop(l) is None and any(c.k == 'CallExpr' and c.callee == 'gdstk::slice' for c in l.walk())), None)
    inh = next((l for l in f.walk() if l.k in LOOPK and LP.enclosing_loop(l) is None and l is not work and
                (any(c.k == 'CallExpr' and (c.callee or '').endswith('properties_copy') for c in l.walk()) or
                 any(is_assign(x) and norm(x.child('lhs').text()).endswith('->tag') for x in l.walk()) or
                 any(c.k == 'CXXMemberCallExpr' and (c.callee or '').endswith('Repetition::copy_from') for c in l.walk()))), None)
    if work is None or inh is None or work is inh:
        raise AnalysisBroken('Polygon::fracture: expected a work loop and an inheritance loop')
    t = norm(clone.canon(inh, f, ren=ren))
    rk = lvalue_key(next(x for x in f.walk() if x.k == 'DeclRefExpr' and x.dk == 'param' and x.n == f.params[2]['n'])) if len(f.params) >= 3 else None
    trip = LP.Loop(f, inh).trip()
    def _this_member(e, name):
        return any(m_.k == 'MemberExpr' and m_.n == name and _strip_casts(m_.child('base')) is not None and _strip_casts(m_.child('base')).k == 'CXXThisExpr' for m_ in e.walk())

    def _piece_member(e, name):
        e = _strip_casts(e)
        return e is not None and e.k == 'MemberExpr' and e.n == name and e.arrow and not _this_member(e, name)
    has_tag = any(is_assign(x) and _piece_member(x.child('lhs'), 'tag') and _this_member(x.child('rhs'), 'tag') for x in inh.walk())
    has_rep = any(c.k == 'CXXMemberCallExpr' and (c.callee or '').endswith('Repetition::copy_from') and c.child('obj') is not None and _piece_member(c.child('obj'), 'repetition') and c.args and _this_member(c.args[0], 'repetition') for c in inh.walk())
    has_prop = any(is_assign(x) and _piece_member(x.child('lhs'), 'properties') and any(c.k == 'CallExpr' and (c.callee or '').endswith('properties_copy') and c.args and _this_member(c.args[0], 'properties') for c in x.child('rhs').walk()) for x in inh.walk())
    ok = trip is not None and rk is not None and trip == {rk + '.count': 1} and has_tag and has_rep and has_prop
    ctx.check(ok, 'R-COPY', 'fracture/pieces-inherit', inh.loc(), 'every piece receives the tag, a deep copy of the repetition and of the properties', 'inheritance loop (trip %s): %s' % (trip, t[:300]))
    # work loop progress, decided on the CFG: a piece over the limit is removed at the current index (remove_unordered moves the last,
    # unexamined piece into that slot), so no increment of the index may be reachable from the removal before the loop test; the
    # index advances on the path that finds the piece small enough
    g = f.cfg
    rem = [c for c in work.walk() if c.k == 'CXXMemberCallExpr' and (c.callee or '').endswith('::remove_unordered')]
    why = None
    if len(rem) != 1 or rk is None or lvalue_key(_strip_casts(rem[0].child('obj'))) != rk or _strip_casts(rem[0].args[0]).k != 'DeclRefExpr':
        why = 'the piece over the limit is not removed from the result at the loop index'
    else:
        iv = _strip_casts(rem[0].args[0])
        incs = [u for u in work.walk() if ((u.k == 'UnaryOperator' and u.op in ('++', 'post++')) or (u.k == 'CompoundAssignOperator' and u.op == '+=')) and _strip_casts(u.child('sub') or u.child('lhs')).k == 'DeclRefExpr'
                and _strip_casts(u.child('sub') or u.child('lhs')).d == iv.d]
        wc = g.where_node(work.child('cond')) if work.child('cond') is not None else None
        wr = g.where_node(rem[0])
        if not incs:
            why = 'the work loop never advances its index'
        elif wc is None or wr is None:
            raise AnalysisBroken('Polygon::fracture: work loop not located in the CFG')
        else:
            for u in incs:
                wu = g.where_node(u)
                if wu is not None and g.path_avoiding(wr, lambda b, i, nid, wu=wu: (b, i) == wu, lambda b, i, nid: (b, i) == wc) is not None:
                    why = 'after remove_unordered(%s) the index is advanced at %s before the slot is examined again: the piece moved into the slot is never checked against the limit' % (iv.n, u.loc())
            # the advance happens under `count <= max_points`
            small = [any(('max_points' in norm(c_.text())) and p_ for c_, p_ in tables.path_conds(u, stop=work)) or work.child('inc') is not None and any(y is u for y in work.child('inc').walk()) for u in incs]
            if why is None and not any(small):
                why = 'no advance of the index under the small-enough test'
    ctx.check(why is None, 'R-LOOP', 'fracture/work-loop', work.loc(), 'the loop advances only past small-enough pieces; a large piece is removed at index i and replaced by its slices (then re-examined)', why)
    # cut index
    frac = next((v for v in work.walk() if v.k == 'VarDecl' and v.n == 'frac'), None)
    idx = [x for x in work.walk() if x.k == 'CXXOperatorCallExpr' and x.op == '[]' and frac is not None and any(y.k == 'DeclRefExpr' and y.d == frac.d for y in x.walk())]
    ok = frac is not None and len(idx) == 1
    if ok:
        arr = norm(idx[0].args[0].text())
        ft = norm(frac.child('init').text())
        ok = ft == '(%s.count / (num_cuts + 1.0))' % arr or ft == '(%s.count / (num_cuts + 1))' % arr
        loop = next(a for a in idx[0].ancestors() if a.k == 'ForStmt')
        ok = ok and norm(loop.child('cond').text()).endswith('<= num_cuts)') and norm(idx[0].args[1].text()) == '(uint64_t)(j * frac)'
        ctx.check(ok, 'R-BOUND', 'fracture/cut-index', idx[0].loc(), 'cut j is taken at index j * (A.count / (num_cuts + 1)) of the array A it indexes, j <= num_cuts: the index stays below A.count',
                  'the cut stride `%s` is not derived from the count of the array it indexes (`%s`): the index can leave the interior coordinates (cut on the bounding box edge -> no progress; or out of bounds)' % (ft, arr))
    else:
        ctx.violation('R-BOUND', 'fracture/cut-index', work.loc(), 'cut index expression not recognised')
    # bins
    ch = next((v for v in work.walk() if v.k == 'VarDecl' and v.n == 'chopped'), None)
    ok = ch is not None and '((cuts.count + 1) * sizeof(' in norm(ch.child('init').text())
    cutsd = next((v for v in work.walk() if v.k == 'VarDecl' and v.n == 'cuts'), None)
    ck = ('v%d:cuts.count' % cutsd.d) if cutsd is not None else None
    cl = [l for l in work.walk() if l.k in LOOPK and l is not work and ck is not None and LP.Loop(f, l).trip() == {ck: 1, 1: 1}]
    ext = [c for c in work.walk() if c.k == 'CXXMemberCallExpr' and (c.callee or '').endswith('::extend') and 'chopped[' in norm(c.args[0].text())]
    ctx.check(ok and len(cl) == 2 and len(ext) == 1, 'R-AGG', 'fracture/all-bins', work.loc(), 'cuts.count + 1 bins are allocated and all of them are appended to the result')
    sl = next((c for c in work.walk() if c.k == 'CallExpr' and c.callee == 'gdstk::slice'), None)
    sc = next((v for v in f.walk() if v.k == 'VarDecl' and v.n == 'scaling'), None)
    ok = sl is not None and sc is not None and norm(sc.child('init').text(ren)) == '(1.0 / $precision)' and norm(sl.args[3].text()) == 'scaling'
    ctx.check(ok or (sl is not None and norm(sc.child('init').text(ren)) == '(1 / $precision)'), 'R-UNIT', 'fracture/grid', f.loc(), 'slicing happens on the grid 1/precision')


def check_slice(ctx, db):
    f = db.fn('gdstk::slice')
    ctx.touch(f)
    ren = clone.Renamer(f, params_by_name=True)
    loop = next((l for l in f.walk() if l.k == 'ForStmt'), None)
    if loop is None:
        raise AnalysisBroken('slice: loop not found')
    ok = norm(loop.child('cond').text(ren)).endswith('<= $positions.count)')
    ctx.check(ok, 'R-AGG', 'slice/positions+1-strips', loop.loc(), 'positions.count + 1 strips are produced (before the first, between, after the last cut)')
    iff = next((i for i in loop.child('body').c if i is not None and i.k == 'IfStmt'), None)
    okc = iff is not None and norm(iff.child('cond').text(ren)) == '$x_axis'
    for br, lo, hi, end in ((iff.child('then'), ('[0][0].X', '[0][3].X'), ('[0][1].X', '[0][2].X'), 'v1[1]'), (iff.child('else'), ('[0][0].Y', '[0][1].Y'), ('[0][2].Y', '[0][3].Y'), 'v1[3]')) if okc else ():
        st = [s for s in br.c if s is not None]
        t = [norm(s.text(ren)) for s in st]
        m0 = re.search(r'= (v\d+)\)\)$', t[0]) if len(st) == 4 else None
        ok = len(st) == 4 and m0 is not None and all(k in t[0] for k in lo) and t[1].startswith('(%s = ' % m0.group(1)) and 'llround(($scaling * $positions[' in t[1] and all(k in t[2] for k in hi) and t[2].endswith('= %s))' % m0.group(1))
        ok = ok and re.search(r'\? llround\(\(\$scaling \* \$positions\[(v\d+)\]\)\) : v\d+\[%s\]\)\)$' % end[-2], t[1]) is not None
        ok = ok and st[3].k == 'IfStmt' and st[3].child('then').k == 'ContinueStmt'
        axis = 'x' if lo[0].endswith('X') else 'y'
        ctx.check(ok, 'R-DEP', 'slice/strip-chaining:%s' % axis, br.loc(), 'the strip starts at the previous cut (carried in the same variable), ends at the next rounded cut (or the box edge), and empty strips are skipped',
                  'strip construction differs: %s' % t)
    ex = next((c for c in loop.walk() if c.k == 'CXXMemberCallExpr' and (c.callee or '').endswith('::Execute')), None)
    a = [norm(x.text(ren)) for x in ex.args] if ex is not None else []
    ctx.check(len(a) == 4 and a[0] == 'ctIntersection' and a[2:] == ['pftNonZero', 'pftNonZero'], 'R-TABLE', 'slice/intersection', loop.loc(), 'each strip is the non-zero intersection of the polygon with the strip rectangle')
    tt = next((c for c in loop.walk() if c.k == 'CallExpr' and c.callee == 'gdstk::tree_to_polygons'), None)
    iv = next((v for v in loop.child('init').walk() if v.k == 'VarDecl'), None)
    dest = _strip_casts(tt.args[2]) if tt is not None else None
    ok = dest is not None and dest.k == 'ArraySubscriptExpr' and lvalue_key(dest.child('base')).endswith(':result') and iv is not None and lvalue_key(dest.child('idx')) == 'v%d:%s' % (iv.d, iv.n)
    ctx.check(ok, 'R-DEP', 'slice/bin-index', tt.loc() if tt is not None else loop.loc(), 'the pieces of interval i are stored in result[i] (indexed by the loop variable, so skipped empty intervals keep their empty bin)',
              'slice does not store interval i in result[i]: after a skipped (empty) interval every later interval lands in the wrong bin')
    bb = db.fn('gdstk::bounding_box', file_suffix='src/clipper_tools.cpp')
    from .. import minmax
    k, roles = minmax.check_minmax(ctx, bb, label='clipper_tools::bounding_box')
    ctx.check(k == 4 and sorted(r[0] for r in roles.values()) == ['max', 'max', 'min', 'min'], 'R-MINMAX', 'clipper_tools::bounding_box/four', bb.loc(), 'the integer box keeps two running minima and two running maxima')


def check_call_sites(ctx, db):
    f = db.fn('gdstk::Cell::to_gds')
    ctx.touch(f)
    sites = [i for i in f.walk() if i.k == 'IfStmt' and i.child('then') is not None and any(x.k == 'CXXMemberCallExpr' and (x.callee or '').endswith('Polygon::fracture') for x in i.child('then').walk())
             and not any(a.k == 'IfStmt' and any(x.k == 'CXXMemberCallExpr' and (x.callee or '').endswith('Polygon::fracture') for x in a.child('then').walk()) for a in i.ancestors() if a.child('then') is not None)]
    # the writer's guard and fracture's own no-op test must agree: fracture is only asked when it acts
    from .C19 import ieval
    fr_fn = db.fn('gdstk::Polygon::fracture')
    early = next((i for i in fr_fn.body.c if i is not None and i.k == 'IfStmt' and 'max_points' in norm(i.child('cond').text()) and tables._always_leaves(i.child('then'))), None)
    if early is None:
        raise AnalysisBroken('Polygon::fracture: early return on max_points not found')
    for i in sites:
        c = _strip_casts(i.child('cond'))
        g = c.child('lhs') if c.k == 'BinaryOperator' and c.op == '&&' else None
        bad = None
        if g is None or 'max_points' not in norm(g.text()) or 'count' in norm(g.text()):
            bad = 'guard is not `limit test && count > max_points`: %s' % norm(c.text())
        else:
            for m in range(0, 12):
                if ieval(g, {'max_points': m}) and ieval(early.child('cond'), {'max_points': m}):
                    bad = 'for max_points = %d the writer asks fracture to split the polygon, but fracture returns without producing any piece: the polygon is lost' % m
                    break
                if not ieval(g, {'max_points': m}) and not ieval(early.child('cond'), {'max_points': m}):
                    bad = 'for max_points = %d the limit is ignored although fracture would act' % m
                    break
        ctx.check(bad is None, 'R-TABLE', 'Cell::to_gds/limit-guard@%d' % i.l, i.loc(), 'for max_points 0..11 the writer fractures exactly when Polygon::fracture acts (limit >= 5)', bad)
    mem = []
    for i in sites:
        txt = norm(clone.canon(i, f, ren=clone.Renamer(f, params_by_name=True)))
        txt = re.sub(r'\bv\d+\b', 'V', txt)
        txt = txt.replace('ErrorCode V = ', '(V = ').replace('(V = V->to_gds($out, $scaling))', 'ERR = V->to_gds($out, $scaling)').replace('(V = V->to_gds($out, $scaling)', 'ERR = V->to_gds($out, $scaling)')
        txt = re.sub(r'^\s*ErrorCode V\n', '', txt, flags=re.M)
        mem.append(('Cell::to_gds[limit@%d]' % i.l, i.loc(), txt))
    clone.check_family(ctx, 'R-CLONE', 'Cell::to_gds vertex-limit blocks', mem, 3)     # advisory: the absolute obligations follow
    for i in sites:
        # the piece array is emptied after its pieces were written: the next polygon's pieces must not follow stale (released) ones
        fr = next(x for x in i.child('then').walk() if x.k == 'CXXMemberCallExpr' and (x.callee or '').endswith('Polygon::fracture'))
        dest = lvalue_key(_strip_casts(fr.args[2])) if len(fr.args) >= 3 else None
        loops_ = [x for x in i.child('then').walk() if x.k in ('ForStmt', 'WhileStmt', 'DoStmt') and any(y.k == 'CXXMemberCallExpr' and (y.callee or '').endswith('Polygon::to_gds') for y in x.walk())]
        ok = False
        if dest is not None and loops_:
            lp = loops_[0]
            for x in i.child('then').walk():
                if x.pos <= lp.pos or any(a is lp for a in x.ancestors()):
                    continue
                if x.k == 'BinaryOperator' and x.op == '=' and lvalue_key(_strip_casts(x.child('lhs'))) == dest + '.count' and _strip_casts(x.child('rhs')).cv == 0:
                    ok = True
                if x.k == 'CXXMemberCallExpr' and (x.callee or '').endswith('::clear') and x.child('obj') is not None and lvalue_key(_strip_casts(x.child('obj'))) == dest:
                    ok = True
        ctx.check(ok, 'R-PAIR', 'Cell::to_gds/pieces-emptied@%d' % i.l, i.loc(), 'the array that received the pieces is emptied after they were written, before the next polygon is fractured into it',
                  'the piece array `%s` is not emptied after the pieces were written: the next polygon above the limit is followed by the stale pieces of this one' % dest)
    for i in sites:
        c = norm(i.child('cond').text(clone.Renamer(f, params_by_name=True)))
        ok = re.match(r'^\(\(\$max_points >=? \d+\) && \(v\d+->point_array\.count > \$max_points\)\)$', c) is not None
        fr = [x for x in i.child('then').walk() if x.k == 'CXXMemberCallExpr' and (x.callee or '').endswith('Polygon::fracture')]
        tg = [x for x in i.walk() if x.k == 'CXXMemberCallExpr' and (x.callee or '').endswith('Polygon::to_gds')]
        ok = ok and len(fr) == 1 and [norm(a.text(clone.Renamer(f, params_by_name=True))) for a in fr[0].args][:2] == ['$max_points', '$precision'] and len(tg) == 2
        ctx.check(ok, 'R-SHAPE', 'Cell::to_gds/limit@%d' % i.l, i.loc(), 'polygons above the limit are fractured with (max_points, precision) and every piece is written through Polygon::to_gds; others are written directly')


def check_pieces_written(ctx, db):
    """R-DEP: in every vertex-limit block of Cell::to_gds, what is written after the fracture are the pieces: the object of each
    Polygon::to_gds call inside the block's loop is an element of the array that received the pieces, every element once
    (affine loop summary); the unfractured polygon is written only on the other branch."""
    from .. import loops as LP
    f = db.fn('gdstk::Cell::to_gds')
    sites = [i for i in f.walk() if i.k == 'IfStmt' and i.child('then') is not None and any(x.k == 'CXXMemberCallExpr' and (x.callee or '').endswith('Polygon::fracture') for x in i.child('then').walk())
             and not any(a.k == 'IfStmt' and any(x.k == 'CXXMemberCallExpr' and (x.callee or '').endswith('Polygon::fracture') for x in a.child('then').walk()) for a in i.ancestors() if a.child('then') is not None)]
    n = 0
    for i in sites:
        fr = next(x for x in i.child('then').walk() if x.k == 'CXXMemberCallExpr' and (x.callee or '').endswith('Polygon::fracture'))
        dest = lvalue_key(_strip_casts(fr.args[2])) if len(fr.args) >= 3 else None
        src = lvalue_key(_strip_casts(fr.child('obj'))) if fr.child('obj') is not None else None
        writes = [x for x in i.child('then').walk() if x.k == 'CXXMemberCallExpr' and (x.callee or '').endswith('Polygon::to_gds')]
        why = None
        if dest is None or not writes:
            why = 'no Polygon::to_gds call follows the fracture in this block'
        for w in writes:
            n += 1
            L = LP.enclosing_loop(w)
            if L is None or not any(a is i for a in L.ancestors()):
                why = 'the pieces are not written inside a loop over the piece array'
                break
            lp = LP.Loop(f, L)
            obj = _strip_casts(w.child('obj'))
            ep = lp.addr(obj, w)
            if ep is None and obj is not None and obj.k == 'DeclRefExpr' and obj.dk == 'local':
                decls = [v for v in L.walk() if v.k == 'VarDecl' and v.d == obj.d and v.child('init') is not None]
                reassigned = any((is_assign(x) or x.k == 'CompoundAssignOperator') and _strip_casts(x.child('lhs')).k == 'DeclRefExpr' and _strip_casts(x.child('lhs')).d == obj.d for x in L.walk())
                if len(decls) == 1 and not reassigned:
                    ep = lp.addr(decls[0].child('init'), decls[0])
            if ep is None or lp.visits(ep, dest + '.items', {dest + '.count': 1}) is None or not LP.unconditional_in(w, L):
                why = 'the object written at %s is `%s`, not each element of `%s` once: %s' % (w.loc(), obj.text() if obj is not None else '?', pretty(dest), 'the unfractured polygon is written once per piece' if obj is not None and lvalue_key(obj) == src else 'pieces are skipped or repeated')
                break
        ctx.check(why is None, 'R-DEP', 'Cell::to_gds/pieces-written@%d' % i.l, i.loc(), 'after the fracture every piece of the receiving array is written exactly once', why)
    ctx.require('R-DEP piece writes', n, 3)


def pretty(k):
    return re.sub(r'^v\d+:', '', k or '?')


def _modified(fn, name):
    """sites where parameter `name` of fn is written: assignment, compound assignment, ++/--, address taken"""
    out = []
    for r in fn.walk():
        if r.k != 'DeclRefExpr' or r.n != name or r.dk != 'param':
            continue
        cur, p = r, r.parent
        while p is not None and p.k in ('ImplicitCastExpr', 'ParenExpr') and p.ck != 'LValueToRValue':
            cur, p = p, p.parent
        if p is None:
            continue
        if (is_assign(p) or p.k == 'CompoundAssignOperator') and _strip_casts(p.child('lhs')) is r:
            out.append(p)
        elif p.k == 'UnaryOperator' and p.op in ('++', '--', 'post++', 'post--', '&'):
            out.append(p)
    return out


def check_limit_passthrough(ctx, db):
    """R-PASS: the vertex limit and the precision the user gave reach Polygon::fracture unchanged. Every call of
    Cell::to_gds hands over the caller's own `max_points` and `precision` (parameter or member of the writer /
    library), and no function on the way writes to those parameters."""
    n = 0
    chain = [db.fn('gdstk::Cell::to_gds')]
    for f in db.functions:
        if f.body is None or not f.relfile().startswith(('src/', 'include/')):
            continue
        for c in f.walk():
            if c.k != 'CXXMemberCallExpr' or c.callee != 'gdstk::Cell::to_gds':
                continue
            n += 1
            ctx.touch(f)
            if f not in chain:
                chain.append(f)
            args = c.args
            for idx, want in ((2, 'max_points'), (3, 'precision')):
                a = _strip_casts(args[idx]) if len(args) > idx else None
                ok = a is not None and ((a.k == 'DeclRefExpr' and a.dk == 'param' and a.n == want) or (a.k == 'MemberExpr' and a.n == want and _strip_casts(a.child('base')) is not None and _strip_casts(a.child('base')).k == 'CXXThisExpr'))
                ctx.check(ok, 'R-PASS', '%s/to_gds-arg:%s@%s' % (f.qn.replace('gdstk::', ''), want, c.loc()), c.loc(), 'the cell writer receives the caller\'s own `%s`' % want,
                          'Cell::to_gds is given `%s` where the user\'s %s belongs: polygons are fractured to a different %s than the one requested' % (norm(args[idx].text()) if len(args) > idx else '?', want, 'vertex limit' if want == 'max_points' else 'rounding grid'))
    for f in chain:
        for want in ('max_points', 'precision'):
            if not any((p.get('n') if isinstance(p, dict) else p.n) == want for p in f.params):
                continue
            w = _modified(f, want)
            n += 1
            ctx.check(not w, 'R-PASS', '%s/param-untouched:%s' % (f.qn.replace('gdstk::', ''), want), f.loc(), 'parameter `%s` is never written on its way to Polygon::fracture' % want,
                      'parameter `%s` is modified at %s (`%s`) before it reaches Polygon::fracture: pieces are cut to a different %s than the caller asked for' % (want, w[0].loc() if w else '', norm(w[0].text())[:80] if w else '', 'limit' if want == 'max_points' else 'grid'))
    ctx.require('R-PASS limit/precision hand-overs', n, 5)


def run(ctx):
    db = ctx.db
    ctx.attempt(check_fracture, ctx, db)
    ctx.attempt(check_slice, ctx, db)
    ctx.attempt(check_call_sites, ctx, db)
    ctx.attempt(check_pieces_written, ctx, db)
    ctx.attempt(check_limit_passthrough, ctx, db)
    ctx.attempt(C05.check_tree, ctx, db)
    from . import C20
    ctx.attempt(C20.check_heap, ctx, db)# fracture sorts the vertex coordinates that become cut positions


MANIFEST = dict(
    text='Decides the structural necessary conditions of fracture/slice: immediate return below five; every piece inherits tag, repetition and properties through copiers; the work loop advances only past small-enough pieces and replaces a large one in place; the cut index is derived from the count of the very array it indexes (stays in bounds, cuts stay interior); all cuts.count+1 bins are allocated and collected; slice chains strips from the previous to the next rounded cut, skips empty strips, intersects with non-zero fill and stores interval i in result[i]; the result tree is walked completely; the three vertex-limit blocks of Cell::to_gds are clones that fracture with (max_points, precision) and write every piece through Polygon::to_gds; every caller of Cell::to_gds hands over its own max_points and precision and no function on the way writes to those parameters (R-PASS). Region preservation, non-overlap, termination of re-slicing and the vertex bound themselves are value dependent and not decided. Every vertex-limit block empties the piece array after writing it (R-PAIR); the clone comparison of the three blocks is advisory. The sort of the cut positions is decided by R-MODEL.sort (C20).',
    note='Trusted: clang front end, gx, sa rules; Clipper semantics external.',
    technique='shape/def-use rules over typed ASTs (index-derivation, bin index by loop variable, strip chaining) + clone family + pairing rule per block + gdstk::sort by interpretation on all small arrays (shared with C20)',
    design='§4 C12')
