"""C13 — offset: join table, tolerance routing, grid-unit discipline of distance, union pre-pass."""
import re
from .. import tables, clone
from ..facts import AnalysisBroken
from ..flow import lvalue_key, is_assign, _strip_casts
from . import C05

EXPLANATION = ('R-TABLE/R-EXHAUST: OffsetJoin Bevel/Miter/Round -> jtSquare/jtMiter/jtRound, all enumerators covered; MiterLimit is set '
               'from the tolerance only under Miter, ArcTolerance = distance x scaling x (1 - cos(pi/tolerance)) only under Round '
               '(grid units). R-UNIT: Execute receives distance x scaling with the scaling used for the coordinates; the result is '
               'converted back with the same scaling. R-PAIRCALL: under use_union (and only that condition) the ctUnion pass with '
               'non-zero fill precedes AddPaths of the joined paths to the offsetter and the un-unioned paths are not added; '
               'otherwise the original paths are added. The result tree is walked completely (shared with C05). The distance '
               'semantics of ClipperOffset is not decided.')
ASSUMPTIONS = ['external/clipper is not analysed']
XREF_FILES = ['src/clipper_tools.cpp']
norm = C05.norm


def run(ctx):
    db = ctx.db
    from . import C05   # an offset result with holes is returned as keyhole polygons: link_holes must preserve the region
    ctx.memo('link_holes', {'src/clipper_tools.cpp', 'include/gdstk/sort.hpp'}, C05.check_link_holes_model, db)
    f = db.fn('gdstk::offset', file_suffix='src/clipper_tools.cpp')
    ctx.touch(f)
    # join table and tolerance routing, by evaluation: for every OffsetJoin enumerator the statements that feed ClipperOffset::AddPaths are
    # interpreted (sa/minieval.value_at: the backward slice of the join argument - a switch, an if chain with a default initialiser, a
    # helper alike) with distance 3, scaling 7, tolerance 5: the join handed to Clipper, and the fields stored on the offsetter
    import math
    from .. import minieval as M
    vals = {c['n']: c['v'] for c in db.enum('gdstk::OffsetJoin')['consts']}
    ren = clone.Renamer(f, params_by_name=True)
    adds = [c for c in f.walk() if c.k == 'CXXMemberCallExpr' and (c.callee or '').endswith('ClipperOffset::AddPaths')]
    if not adds:
        raise AnalysisBroken('offset: ClipperOffset::AddPaths call not found')
    jt_names = {}
    for x in f.walk():
        if x.k == 'DeclRefExpr' and x.dk == 'enum' and (x.qn or '').startswith('ClipperLib::jt') and x.cv is not None:
            jt_names[x.cv] = x.qn.split('::')[-1]

    def hook(callee, args, node):
        if callee == 'cos':
            return (math.cos(float(args[0])),)
        return None
    got, extra = {}, {}
    for name, v in sorted(vals.items()):
        res = set()
        fields = None
        for c in adds:
            val, env = M.value_at(db, c.args[1], typed={'OffsetJoin': v}, obj_store=True, hook=hook, env0={'distance': 3.0, 'scaling': 7.0, 'tolerance': 5.0}, want_env=True)
            res.add(jt_names.get(val, val))
            objs = [o for o in env.values() if isinstance(o, M.Obj)]
            fl = {}
            for o in objs:
                fl.update({k_: v_ for k_, v_ in o.items() if k_ in ('MiterLimit', 'ArcTolerance')})
            fields = fl if fields is None else ({k_: v_ for k_, v_ in fields.items() if fl.get(k_) == v_} if fields != fl else fields)
        got[name] = sorted(res, key=str)[0] if len(res) == 1 else sorted(res, key=str)
        extra[name] = fields or {}
    ctx.explored['valuations'] += len(vals) * len(adds)
    sw = adds[0]
    ctx.check(got == {'Bevel': 'jtSquare', 'Miter': 'jtMiter', 'Round': 'jtRound'}, 'R-TABLE', 'offset/join-table', sw.loc(), 'Bevel/Miter/Round -> jtSquare/jtMiter/jtRound', 'join table is %s' % got)
    arc = 3.0 * 7.0 * (1.0 - math.cos(math.pi / 5.0))
    okx = extra.get('Bevel') == {} and extra.get('Miter') == {'MiterLimit': 5.0} and set(extra.get('Round', {})) == {'ArcTolerance'} and abs(float(extra['Round']['ArcTolerance']) - arc) < 1e-9
    ctx.check(okx, 'R-UNIT', 'offset/tolerance-routing', sw.loc(), 'MiterLimit <- tolerance only under Miter; ArcTolerance <- distance x scaling x (1 - cos(pi/tolerance)) only under Round (evaluated at distance 3, scaling 7, tolerance 5)',
              'tolerance routing is %s (expected ArcTolerance %.6g in grid units under Round only, MiterLimit 5 under Miter only)' % (extra, arc))
    t = norm(clone.canon(f.body, f, ren=ren))
    ex = [c for c in f.walk() if c.k == 'CXXMemberCallExpr' and (c.callee or '').endswith('ClipperOffset::Execute')]
    ok = len(ex) == 1 and norm(ex[0].args[1].text(ren)) == '($distance * $scaling)'
    ctx.check(ok, 'R-UNIT', 'offset/distance-in-grid-units', f.loc(), 'the offsetter receives distance x scaling')
    m = re.search(r'Paths (v\d+) = polygons_to_paths\(\$polygons, \$scaling\)', t)
    tt = next((c for c in f.walk() if c.k == 'CallExpr' and c.callee == 'gdstk::tree_to_polygons'), None)
    ctx.check(m is not None and tt is not None and norm(tt.args[1].text(ren)) == '$scaling', 'R-UNIT', 'offset/same-scaling', f.loc(), 'coordinates go in and come back with the same scaling')
    # the statement that decides about the union pre-pass: the `if` the union's Clipper::Execute call sits in (not any earlier `if`,
    # e.g. a join dispatch written as an if chain)
    un = next((c for c in f.walk() if c.k == 'CXXMemberCallExpr' and (c.callee or '').endswith('Clipper::Execute') and 'ctUnion' in c.text()), None)
    iff = next((a for a in (un.ancestors() if un is not None else []) if a.k == 'IfStmt' and a.parent is f.body), None)
    if iff is None:
        iff = next((i for i in f.body.c if i is not None and i.k == 'IfStmt'), None)
    cond = norm(iff.child('cond').text(ren)) if iff is not None else ''
    ctx.check(cond == '$use_union', 'R-DEP', 'offset/union-condition', iff.loc() if iff is not None else f.loc(), 'the union pre-pass is taken exactly when use_union is set',
              'the union pre-pass is conditioned on `%s`, not on use_union alone: with the option set the result would depend on how the region was split' % cond)
    if iff is not None and m is not None:
        th = norm(clone.canon(iff.child('then'), f, ren=ren))
        el = norm(clone.canon(iff.child('else'), f, ren=ren)) if iff.child('else') is not None else ''
        orig = m.group(1)
        seq = [l.strip() for l in th.splitlines()]
        ok = len(seq) >= 6 and seq[1] == '%s.AddPaths(%s, ptSubject, true)' % (seq[0].split()[1], orig) and 'Execute(ctUnion' in seq[3] and seq[3].endswith('pftNonZero, pftNonZero)') \
            and seq[5].startswith('PolyTreeToPaths(') and re.match(r'^v\d+\.AddPaths\((v\d+), v\d+, etClosedPolygon\)$', seq[6]) is not None and ('AddPaths(%s,' % orig) not in seq[6]
        n_off = sum(1 for c in iff.child('then').walk() if c.k == 'CXXMemberCallExpr' and (c.callee or '').endswith('ClipperOffset::AddPaths'))
        ok = ok and n_off == 1
        ctx.check(ok, 'R-PAIRCALL', 'offset/union-then-offset', iff.loc(), 'with use_union the polygons are unioned (non-zero) first and only the unioned paths are offset', 'union branch: %s' % seq)
        ok = re.match(r'^v\d+\.AddPaths\(%s, v\d+, etClosedPolygon\)$' % orig, el.strip()) is not None
        ctx.check(ok, 'R-PAIRCALL', 'offset/no-union', iff.loc(), 'without use_union the original paths are offset directly')
    ctx.attempt(C05.check_tree, ctx, db)
    ctx.attempt(C05.check_conversions, ctx, db)
    ctx.attempt(C05.check_overflow, ctx, db)
    nf = C05.check_forwarding(ctx, db, 'gdstk::offset', 'offset')
    ctx.require('R-EFFECT offset convenience overloads', nf, 1)
    from . import C14
    ctx.attempt(C14.check_translation_invariance, ctx, db)# polygon_to_path orients every operand by the sign of signed_area


MANIFEST = dict(
    text='Decides the structural necessary conditions on gdstk\'s side of offsetting: complete OffsetJoin -> JoinType table; MiterLimit only under Miter and ArcTolerance (in grid units, distance x scaling x (1 - cos(pi/tolerance))) only under Round; the offsetter receives distance x scaling with the same scaling used for coordinates in and out; the union pre-pass runs exactly under use_union, precedes the offset and replaces (not supplements) the original paths; the result tree is walked completely, hole linking multiplies grid differences in floating point (no 64-bit wrap) and conversions round with llround. The distance semantics of ClipperOffset is not decided. The join table and the tolerance routing are evaluated per join type (minieval.value_at), the union pre-pass condition is read from the `if` that encloses the union call; link_holes by the interpretation shared with C05 (sampled scenes).',
    note='Trusted: clang front end, gx, sa rules; external/clipper is out of the analysed set.',
    technique='table extraction + unit/shape rules + ordering (pairing) rule over typed ASTs + value_at tables + interpretation of link_holes on enumerated scenes (shared with C05)',
    design='§4 C13')
