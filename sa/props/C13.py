"""C13 — offset: join table, tolerance routing, grid-unit discipline of distance, union pre-pass."""
import re
from .. import tables, clone
from ..facts import AnalysisBroken
from ..flow import lvalue_key, is_assign, _strip_casts
from . import C05

EXPLANATION = ('R-TABLE/R-EXHAUST: OffsetJoin Bevel/Miter/Round -> jtSquare/jtMiter/jtRound, all enumerators covered; MiterLimit is set '
               'from the tolerance only under Miter, ArcTolerance = distance x scaling x (1 - cos(pi/tolerance)) only under Round '
               '(grid units). R-UNIT: Execute receives distance x scaling with the scaling used for the coordinates; the result is '
               'converted back with the same scaling. R-PAIRCALL: under use_union (and only that condition) the ctUnion pass with '
               'non-zero fill precedes AddPaths of the joined paths to the offsetter and the un-unioned paths are not added; '
               'otherwise the original paths are added. The result tree is walked completely (shared with C05). The distance '
               'semantics of ClipperOffset is not decided.')
ASSUMPTIONS = ['external/clipper is not analysed']
XREF_FILES = ['src/clipper_tools.cpp']
norm = C05.norm


def run(ctx):
    db = ctx.db
    f = db.fn('gdstk::offset', file_suffix='src/clipper_tools.cpp')
    ctx.touch(f)
    ctx.attempt(tables.check_exhaustive, ctx, db, f, 'gdstk::OffsetJoin')
    sw = tables.switches_on(f, 'OffsetJoin')[0]
    vals = {c['v']: c['n'] for c in db.enum('gdstk::OffsetJoin')['consts']}
    ren = clone.Renamer(f, params_by_name=True)
    got = {}
    extra = {}
    for labels, stmts, top in tables.switch_arms(sw):
        asg = [x for s in stmts for x in s.walk() if is_assign(x)]
        for l in labels:
            k = vals.get(l, l)
            got[k] = next((norm(a.child('rhs').text(ren)) for a in asg if a.child('lhs').k == 'DeclRefExpr'), None)
            extra[k] = {norm(a.child('lhs').text(ren)).split('.')[-1]: norm(a.child('rhs').text(ren)) for a in asg if a.child('lhs').k == 'MemberExpr'}
    ctx.check(got == {'Bevel': 'jtSquare', 'Miter': 'jtMiter', 'Round': 'jtRound'}, 'R-TABLE', 'offset/join-table', sw.loc(), 'Bevel/Miter/Round -> jtSquare/jtMiter/jtRound', 'join table is %s' % got)
    want_extra = {'Bevel': {}, 'Miter': {'MiterLimit': '$tolerance'}, 'Round': {'ArcTolerance': '(($distance * $scaling) * (1 - cos((3.141592653589793 / $tolerance))))'}}
    extra = {k: {a: b.replace('1.0 -', '1 -') for a, b in v.items()} for k, v in extra.items()}
    ctx.check(extra == want_extra, 'R-UNIT', 'offset/tolerance-routing', sw.loc(), 'MiterLimit <- tolerance only under Miter; ArcTolerance <- distance x scaling x (1 - cos(pi/tolerance)) only under Round',
              'tolerance routing is %s' % extra)
    t = norm(clone.canon(f.body, f, ren=ren))
    ex = [c for c in f.walk() if c.k == 'CXXMemberCallExpr' and (c.callee or '').endswith('ClipperOffset::Execute')]
    ok = len(ex) == 1 and norm(ex[0].args[1].text(ren)) == '($distance * $scaling)'
    ctx.check(ok, 'R-UNIT', 'offset/distance-in-grid-units', f.loc(), 'the offsetter receives distance x scaling')
    m = re.search(r'Paths (v\d+) = polygons_to_paths\(\$polygons, \$scaling\)', t)
    tt = next((c for c in f.walk() if c.k == 'CallExpr' and c.callee == 'gdstk::tree_to_polygons'), None)
    ctx.check(m is not None and tt is not None and norm(tt.args[1].text(ren)) == '$scaling', 'R-UNIT', 'offset/same-scaling', f.loc(), 'coordinates go in and come back with the same scaling')
    iff = next((i for i in f.body.c if i is not None and i.k == 'IfStmt'), None)
    cond = norm(iff.child('cond').text(ren)) if iff is not None else ''
    ctx.check(cond == '$use_union', 'R-DEP', 'offset/union-condition', iff.loc() if iff is not None else f.loc(), 'the union pre-pass is taken exactly when use_union is set',
              'the union pre-pass is conditioned on `%s`, not on use_union alone: with the option set the result would depend on how the region was split' % cond)
    if iff is not None and m is not None:
        th = norm(clone.canon(iff.child('then'), f, ren=ren))
        el = norm(clone.canon(iff.child('else'), f, ren=ren)) if iff.child('else') is not None else ''
        orig = m.group(1)
        seq = [l.strip() for l in th.splitlines()]
        ok = len(seq) >= 6 and seq[1] == '%s.AddPaths(%s, ptSubject, true)' % (seq[0].split()[1], orig) and 'Execute(ctUnion' in seq[3] and seq[3].endswith('pftNonZero, pftNonZero)') \
            and seq[5].startswith('PolyTreeToPaths(') and re.match(r'^v\d+\.AddPaths\((v\d+), v\d+, etClosedPolygon\)$', seq[6]) is not None and ('AddPaths(%s,' % orig) not in seq[6]
        n_off = sum(1 for c in iff.child('then').walk() if c.k == 'CXXMemberCallExpr' and (c.callee or '').endswith('ClipperOffset::AddPaths'))
        ok = ok and n_off == 1
        ctx.check(ok, 'R-PAIRCALL', 'offset/union-then-offset', iff.loc(), 'with use_union the polygons are unioned (non-zero) first and only the unioned paths are offset', 'union branch: %s' % seq)
        ok = re.match(r'^v\d+\.AddPaths\(%s, v\d+, etClosedPolygon\)$' % orig, el.strip()) is not None
        ctx.check(ok, 'R-PAIRCALL', 'offset/no-union', iff.loc(), 'without use_union the original paths are offset directly')
    ctx.attempt(C05.check_tree, ctx, db)
    ctx.attempt(C05.check_conversions, ctx, db)
    ctx.attempt(C05.check_overflow, ctx, db)
    nf = C05.check_forwarding(ctx, db, 'gdstk::offset', 'offset')
    ctx.require('R-EFFECT offset convenience overloads', nf, 1)
    from . import C14
    ctx.attempt(C14.check_translation_invariance, ctx, db)# polygon_to_path orients every operand by the sign of signed_area


MANIFEST = dict(
    text='Decides the structural necessary conditions on gdstk\'s side of offsetting: complete OffsetJoin -> JoinType table; MiterLimit only under Miter and ArcTolerance (in grid units, distance x scaling x (1 - cos(pi/tolerance))) only under Round; the offsetter receives distance x scaling with the same scaling used for coordinates in and out; the union pre-pass runs exactly under use_union, precedes the offset and replaces (not supplements) the original paths; the result tree is walked completely, hole linking multiplies grid differences in floating point (no 64-bit wrap) and conversions round with llround. The distance semantics of ClipperOffset is not decided.',
    note='Trusted: clang front end, gx, sa rules; external/clipper is out of the analysed set.',
    technique='table extraction + unit/shape rules + ordering (pairing) rule over typed ASTs',
    design='§4 C13')
