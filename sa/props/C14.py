"""C14 — point-in-polygon and measures: bounding-box pre-filter soundness by exhaustive weak-order
enumeration, decision tables of Polygon::contain, group verdicts only through contain, measures."""
import itertools
import re
from .. import clone, tables
from ..facts import AnalysisBroken
from ..flow import lvalue_key, is_assign, _strip_casts

EXPLANATION = ('(1) The bounding-box pre-filter of each of the five group functions is a Boolean combination of comparisons among '
               'p.x, p.y, min.x, min.y, max.x, max.y; it is evaluated over ALL weak orderings of those six quantities (a finite '
               'abstract domain that represents every input exactly for comparison-only predicates) and must satisfy: reject => '
               'outside the box (all-variants) / inside the box => accept (any-variants). (2) Decision tables of Polygon::contain, '
               'extracted from its branch structure and enumerated over all weak orderings of (p0.x, p1.x, point.x): an edge that '
               'crosses the ray line may be skipped only when it lies strictly left (p0.x < x and p1.x <= x), is counted directly '
               'only when it lies right with p1.x > x, and otherwise goes through the determinant test (which reports on-edge '
               'points); the crossing test is the half-open rule (p0.y < y) != (p1.y < y); the boundary test accepts only points '
               'on the closed edge and every point equal to p1 or strictly inside a horizontal edge. (3) Group functions reach a '
               'positive verdict only through Polygon::contain. (4) area/signed_area/perimeter return 0 below three vertices before '
               'any vertex is read, area and signed_area share one shoelace loop, the repetition count multiplies area and '
               'perimeter and not signed_area. Winding accumulation over whole polygons and floating sums are not decided.')
ASSUMPTIONS = ['bounding_box returns min <= max component-wise for non-empty polygons (C09); an empty group gives the inverted box, for which every ordering is enumerated as well']
XREF_FILES = ['src/polygon.cpp']


def norm(t):
    return re.sub(r'<[A-Za-z]+:(?!:)[^>]*>', '', t).replace('gdstk::', '')


def ev(c, val):
    """Evaluate a comparison-only condition under val: {operand text: rank}."""
    c = _strip_casts(c)
    if c.k == 'UnaryOperator' and c.op == '!':
        return not ev(c.child('sub'), val)
    if c.k == 'BinaryOperator' and c.op == '&&':
        return ev(c.child('lhs'), val) and ev(c.child('rhs'), val)
    if c.k == 'BinaryOperator' and c.op == '||':
        return ev(c.child('lhs'), val) or ev(c.child('rhs'), val)
    if c.k == 'BinaryOperator' and c.op in ('<', '>', '<=', '>=', '==', '!='):
        l, r = _strip_casts(c.child('lhs')), _strip_casts(c.child('rhs'))
        if l.k == 'BinaryOperator' and l.op in ('<', '>', '<=', '>=', '==', '!=', '&&', '||') or (c.op in ('==', '!=') and (l.t or '') == 'bool'):
            a, b = ev(l, val), ev(r, val)
        else:
            a, b = val[norm(l.text())], val[norm(r.text())]
        return {'<': a < b, '>': a > b, '<=': a <= b, '>=': a >= b, '==': a == b, '!=': a != b}[c.op]
    if c.k == 'CXXMemberCallExpr' or c.k == 'CallExpr':
        return val['call:' + norm(c.text())]
    if c.k == 'DeclRefExpr' and c.dk == 'local':
        # a named comparison: `const bool right = p0.x >= point.x;` reads as its initialiser
        d = next((v for v in c.fn.body.walk() if v.k == 'VarDecl' and v.d == c.d and v.child('init') is not None and (v.t or '').startswith('const ')), None)
        if d is not None:
            return ev(d.child('init'), val)
    if c.k == 'ParenExpr':
        return ev(c.c[0], val)
    raise AnalysisBroken('condition is not comparison-only: %s' % c.text()[:80])


def operands(c, out):
    c = _strip_casts(c)
    if c.k == 'BinaryOperator' and c.op in ('&&', '||'):
        operands(c.child('lhs'), out)
        operands(c.child('rhs'), out)
    elif c.k == 'UnaryOperator' and c.op == '!':
        operands(c.child('sub'), out)
    elif c.k == 'BinaryOperator':
        l, r = _strip_casts(c.child('lhs')), _strip_casts(c.child('rhs'))
        if l.k == 'BinaryOperator' and l.op in ('<', '>', '<=', '>=', '==', '!='):
            operands(l, out)
            operands(r, out)
        else:
            out.add(norm(l.text()))
            out.add(norm(r.text()))
    elif c.k in ('CXXMemberCallExpr', 'CallExpr'):
        out.add('call:' + norm(c.text()))
    return out


def opkey(n):
    """operand name independent of value / pointer / reference spelling: `point.x`, `point->x`, `(*point).x` -> point.x"""
    n = _strip_casts(n)
    if n.k == 'MemberExpr' and n.n in ('x', 'y'):
        b = n.child('base')
        while b is not None and _strip_casts(b).k == 'MemberExpr' and not _strip_casts(b).n:
            b = _strip_casts(b).child('base')
        b = _strip_casts(b)
        if b is not None and b.k == 'UnaryOperator' and b.op == '*':
            b = _strip_casts(b.child('sub'))
        if b is not None and b.k == 'ArraySubscriptExpr':
            return norm(b.text()) + '.' + n.n
        if b is not None and b.k in ('DeclRefExpr', 'MemberExpr'):
            return norm(b.text()).replace('this->', '') + '.' + n.n
    return norm(n.text())


def cmp_operands(c, out):
    c = _strip_casts(c)
    if c.k == 'BinaryOperator' and c.op in ('&&', '||'):
        cmp_operands(c.child('lhs'), out)
        cmp_operands(c.child('rhs'), out)
    elif c.k == 'UnaryOperator' and c.op == '!':
        cmp_operands(c.child('sub'), out)
    elif c.k == 'BinaryOperator' and c.op in ('<', '>', '<=', '>='):
        out.add(opkey(c.child('lhs')))
        out.add(opkey(c.child('rhs')))
    elif c.k == 'DeclRefExpr' and c.dk == 'local':
        d = next((v for v in c.fn.body.walk() if v.k == 'VarDecl' and v.d == c.d and v.child('init') is not None), None)
        if d is not None:
            cmp_operands(d.child('init'), out)
    return out


def ev2(c, val):
    """truth value of a condition under val {operand key: rank, 'call:..': bool}; None when it involves anything else"""
    c = _strip_casts(c)
    if c.k == 'UnaryOperator' and c.op == '!':
        v = ev2(c.child('sub'), val)
        return None if v is None else (not v)
    if c.k == 'BinaryOperator' and c.op in ('&&', '||'):
        a, b = ev2(c.child('lhs'), val), ev2(c.child('rhs'), val)
        if c.op == '&&':
            return False if (a is False or b is False) else (None if (a is None or b is None) else True)
        return True if (a is True or b is True) else (None if (a is None or b is None) else False)
    if c.k == 'BinaryOperator' and c.op in ('<', '>', '<=', '>='):
        a, b = val.get(opkey(c.child('lhs'))), val.get(opkey(c.child('rhs')))
        if a is None or b is None:
            return None
        return {'<': a < b, '>': a > b, '<=': a <= b, '>=': a >= b}[c.op]
    if c.k in ('CXXMemberCallExpr', 'CallExpr'):
        return val.get('call')
    if c.k == 'DeclRefExpr' and c.dk == 'local':
        d = next((v for v in c.fn.body.walk() if v.k == 'VarDecl' and v.d == c.d and v.child('init') is not None), None)
        if d is not None:
            return ev2(d.child('init'), val)
    return None


def check_prefilters(ctx, db):
    """The bounding-box pre-filter never changes a verdict. Over all weak orderings of (point.x, point.y, min.x, min.y, max.x,
    max.y) and both outcomes of the exact test: an `accept` routine reaches its positive verdict for every point that is inside
    the box and contained; a `reject` routine reaches its box-based negative verdict only for points outside the box. The
    verdict statements are found by their path conditions (enclosing ifs and preceding guard clauses), so `if (in_box &&
    contain(p)) return true;` and `if (!in_box) continue; if (contain(p)) return true;` are the same to the rule."""
    n = 0
    targets = [('gdstk::Polygon::contain_all', 'reject'), ('gdstk::Polygon::contain_any', 'accept'), ('gdstk::inside', 'accept'), ('gdstk::all_inside', 'reject'), ('gdstk::any_inside', 'accept')]
    for qn, mode in targets:
        f = db.fn(qn)
        ctx.touch(f)
        key = '%s/prefilter' % qn.replace('gdstk::', '')
        verdicts = []
        for x in f.walk():
            want = (mode == 'accept')
            if x.k == 'ReturnStmt' and x.child('value') is not None and _strip_casts(x.child('value')).k == 'CXXBoolLiteralExpr' and bool(_strip_casts(x.child('value')).v) == want:
                verdicts.append(x)
            elif is_assign(x) and x.op == '=' and _strip_casts(x.child('rhs')).k == 'CXXBoolLiteralExpr' and bool(_strip_casts(x.child('rhs')).v) == want:
                verdicts.append(x)
        cand = []
        for v in verdicts:
            conds = tables.path_conds(v)
            ops = set()
            for c, pol in conds:
                cmp_operands(c, ops)
            if any(o.endswith('min.x') for o in ops) and any(o.endswith('max.x') for o in ops):
                cand.append((v, conds, ops))
        if not cand:
            raise AnalysisBroken('%s: bounding-box pre-filter not found' % qn)
        for v, conds, ops in cand:
            syms = sorted(o for o in ops)
            pt = next((o[:-2] for o in syms if o.endswith('.x') and not o.split('.')[0].endswith(('min', 'max'))), None)
            mn = next((o[:-2] for o in syms if o.endswith('min.x')), None)
            mx = next((o[:-2] for o in syms if o.endswith('max.x')), None)
            need = {pt + '.x', pt + '.y', mn + '.x', mn + '.y', mx + '.x', mx + '.y'} if pt and mn and mx else set()
            if not need or not set(syms) <= need:
                ctx.violation('R-ORDER', key, v.loc(), 'pre-filter mentions quantities other than the point and the box: %s' % syms)
                continue
            allsyms = sorted(need)
            bad = None
            count = 0
            for ranks in itertools.product(range(3), repeat=6):
                val = dict(zip(allsyms, ranks))
                outside = val[pt + '.x'] < val[mn + '.x'] or val[pt + '.x'] > val[mx + '.x'] or val[pt + '.y'] < val[mn + '.y'] or val[pt + '.y'] > val[mx + '.y']
                for cv in (False, True):
                    val['call'] = cv
                    count += 1
                    rs = [(ev2(c, val), pol) for c, pol in conds]
                    blocked = any(r is not None and r != pol for r, pol in rs)
                    if mode == 'reject':
                        # the negative verdict is reachable (as far as the box tests go) although the point is not outside
                        if not blocked and not outside:
                            bad = dict(val)
                    else:
                        if blocked and not outside and cv:
                            bad = dict(val)
            ctx.explored['valuations'] += count
            n += 1
            ctx.check(bad is None, 'R-ORDER', key, v.loc(),
                      'over all %d weak orderings: %s' % (count, 'a rejected point is outside the box' if mode == 'reject' else 'every contained point inside the box reaches the positive verdict'),
                      'pre-filter is unsound for the ordering %s: %s' % (bad, 'a point inside the box is rejected' if mode == 'reject' else 'a point inside the box is filtered out before contain() is asked'))
    ctx.require('R-ORDER pre-filters', n, 5)


def check_contain(ctx, db):
    f = db.fn('gdstk::Polygon::contain')
    ctx.touch(f)
    loop = next((l for l in f.walk() if l.k == 'ForStmt'), None)
    if loop is None:
        raise AnalysisBroken('Polygon::contain: edge loop not found')
    ifs = [s for s in loop.child('body').c if s is not None and s.k == 'IfStmt']
    if len(ifs) != 2:
        raise AnalysisBroken('Polygon::contain: expected boundary test + crossing test in the edge loop')
    boundary, crossing = ifs
    # crossing rule
    ct = norm(crossing.child('cond').text())
    ctx.check(ct == '((p0.y < point.y) != (p1.y < point.y))', 'R-TABLE', 'Polygon::contain/crossing-rule', crossing.loc(), 'an edge is examined iff (p0.y < y) != (p1.y < y) (half-open rule: no double counting at vertices)', 'crossing rule is `%s`' % ct)
    # x-case table
    bad = []
    table = {}
    for r0, r1 in itertools.product('<=>', repeat=2):
        val = {'point.x': 1, 'p0.x': {'<': 0, '=': 1, '>': 2}[r0], 'p1.x': {'<': 0, '=': 1, '>': 2}[r1]}
        out = classify(crossing.child('then'), val)
        table[(r0, r1)] = out
        if r0 == '<' and r1 in '<=':
            want = {'skip'}
        elif r1 == '>' and r0 in '=>':
            want = {'count'}
        else:
            want = {'det'}
        if out not in want:
            bad.append(((r0, r1), out, sorted(want)))
    ctx.explored['valuations'] += 9
    ctx.check(not bad, 'R-TABLE', 'Polygon::contain/x-cases', crossing.loc(), 'all 9 orderings of (p0.x, p1.x) against x are handled: strictly-left edges skipped, right edges counted, the rest decided by the determinant (on-edge points reported)',
              'edge cases mishandled (p0.x ? x, p1.x ? x) -> got, allowed: %s' % bad)
    # det blocks: det == 0 returns true; sign test
    from ..facts import expr_text
    hook, drop = clone.temps(f, [f.body])        # named comparisons (`const bool upwards = p1.y > p0.y`) read as their initialisers
    tx = lambda e: norm(expr_text(e, None, hook))
    dets = [v for v in crossing.walk() if v.k == 'VarDecl' and v.n == 'det']
    ok = len(dets) >= 1
    for d in dets:
        ok = ok and tx(d.child('init')) == '(p0 - point).cross((p1 - point))'
        blk = d.parent.parent
        t = norm(clone.canon(blk, f, hook=hook, drop=drop))
        ok = ok and re.search(r'if \(\(v\d+ == 0\)\)\n\s+return true', t) is not None and '((v' in t and '> 0) == (' in t
    ctx.check(ok, 'R-TABLE', 'Polygon::contain/det-blocks', crossing.loc(), 'each determinant block uses (p0 - point) x (p1 - point), reports a zero determinant as on-edge and counts only when its sign agrees with the edge direction')
    incs = [x for x in crossing.walk() if x.k == 'CompoundAssignOperator' and x.op == '+=' and norm(x.child('lhs').text()) == 'winding']
    ok = len(incs) >= 2 and all(tx(x.child('rhs')) == '((p1.y > p0.y) ? 1 : (-1))' for x in incs)
    ctx.check(ok, 'R-TABLE', 'Polygon::contain/winding-step', crossing.loc(), 'every counted crossing adds +1 for an upward and -1 for a downward edge')
    # boundary test: sound (true => on closed edge) and complete for p1 and strictly interior horizontal points
    c = boundary.child('cond')
    bad = None
    for x0, x1, y0, y1 in itertools.product(range(3), repeat=4):
        val = {'point.x': 1, 'point.y': 1, 'p0.x': x0, 'p1.x': x1, 'p0.y': y0, 'p1.y': y1}
        res = ev(c, val)
        on_p1 = x1 == 1 and y1 == 1
        horizontal = y0 == 1 and y1 == 1
        between_closed = horizontal and min(x0, x1) <= 1 <= max(x0, x1)
        strictly = horizontal and min(x0, x1) < 1 < max(x0, x1)
        if res and not (on_p1 or between_closed):
            bad = ('accepts a point off the edge', val)
        if (on_p1 or strictly) and not res:
            bad = ('misses a point on the edge', val)
    ctx.explored['valuations'] += 81
    ctx.check(bad is None and any(r.k == 'ReturnStmt' and norm(r.child('value').text()) == 'true' for r in boundary.child('then').walk()), 'R-ORDER', 'Polygon::contain/boundary-test', boundary.loc(),
              'over all 81 orderings the vertex/horizontal-edge test accepts only points on the closed edge and every point equal to p1 or strictly inside a horizontal edge', 'boundary test %s' % (bad,))
    # prologue/epilogue
    t = norm(clone.canon(f.body, f, ren=clone.Renamer(f, params_by_name=True)))
    ok = t.startswith('if ((this->point_array.count == 0))') and 'Vec2 v0 = Vec2{this->point_array[(this->point_array.count - 1)]}' in t and re.search(r'\(v0 = v\d+\)\n', t) is not None and t.rstrip().endswith('return (v1 != 0)')
    ctx.check(ok, 'R-SHAPE', 'Polygon::contain/closed-walk', f.loc(), 'edges are walked cyclically starting from the last vertex and the verdict is winding != 0')


def classify(stmt, val):
    """Which leaf a single edge reaches in the x-case structure: 'count', 'det' or 'skip'."""
    if stmt is None:
        return 'skip'
    if stmt.k == 'CompoundStmt':
        for s in stmt.c:
            r = classify(s, val)
            if r != 'skip':
                return r
        return 'skip'
    if stmt.k == 'IfStmt':
        if ev(stmt.child('cond'), val):
            return classify(stmt.child('then'), val)
        return classify(stmt.child('else'), val)
    if stmt.k == 'DeclStmt' and any(v is not None and v.n == 'det' for v in stmt.c):
        return 'det'
    if stmt.k == 'CompoundAssignOperator' and norm(stmt.child('lhs').text()) == 'winding':
        return 'count'
    return 'skip'


def check_groups(ctx, db):
    for qn in ('gdstk::Polygon::contain_all', 'gdstk::Polygon::contain_any', 'gdstk::inside', 'gdstk::all_inside', 'gdstk::any_inside'):
        f = db.fn(qn)
        pos = [x for x in f.walk() if (x.k == 'ReturnStmt' and x.child('value') is not None and norm(x.child('value').text()) == 'true') or
               (is_assign(x) and norm(x.child('rhs').text()) == 'true')]
        ok = True
        final = [s for s in f.body.c if s is not None][-1]
        for p in pos:
            if p is final:
                continue
            guarded = False
            for a in p.ancestors():
                if a.k == 'IfStmt' and any(c.k == 'CXXMemberCallExpr' and (c.callee or '') == 'gdstk::Polygon::contain' for c in a.child('cond').walk()):
                    c = _strip_casts(a.child('cond'))
                    neg = c.k == 'UnaryOperator' and c.op == '!'
                    guarded = guarded or not neg
            ok = ok and guarded
        for x in f.walk():
            if is_assign(x) and norm(x.child('lhs').text()).startswith('result[') and _strip_casts(x.child('rhs')).k != 'CXXBoolLiteralExpr':
                ok = False
        ctx.check(ok and bool(pos), 'R-EFFECT', '%s/verdict-through-contain' % qn.replace('gdstk::', ''), f.loc(), 'a positive verdict is reached only under a true Polygon::contain (or as the final value of an all-quantifier)')
        # a per-point verdict variable is fresh in every iteration of the per-point loop
        for x in f.walk():
            if not (is_assign(x) and norm(x.child('rhs').text()) == 'true'):
                continue
            inner = next((a for a in x.ancestors() if a.k == 'ForStmt'), None)
            outer = next((a for a in inner.ancestors() if a.k == 'ForStmt'), None) if inner is not None else None
            if inner is None or outer is None:
                continue
            key = norm(x.child('lhs').text())
            body = [s_ for s_ in (outer.child('body').c if outer.child('body').k == 'CompoundStmt' else [outer.child('body')]) if s_ is not None]
            top = next((s_ for s_ in body if s_ is inner or any(y is inner for y in s_.walk())), None)
            fresh = False
            for s_ in body[:body.index(top)] if top in body else []:
                if is_assign(s_) and norm(s_.child('lhs').text()) == key and norm(s_.child('rhs').text()) == 'false':
                    fresh = True
                if s_.k == 'DeclStmt' and any(v is not None and v.k == 'VarDecl' and v.n == key and v.child('init') is not None and norm(v.child('init').text()) == 'false' for v in s_.c):
                    fresh = True
            ctx.check(fresh, 'R-FRESH', '%s/per-point-verdict:%s' % (qn.replace('gdstk::', ''), key), x.loc(), 'the verdict `%s` is reset to false at the start of every point\'s iteration, before the search over the polygons' % key,
                      'the per-point verdict `%s` is not reset inside the loop over the points: once one point is found inside, every later point inherits the answer' % key)
        # every point and every polygon is visited
        from .. import loops as LP
        trips = []
        for l in LP.loops_of(f):
            t = LP.Loop(f, l).trip()
            if t is not None:
                trips.append(t)
        pk = next(('v%d:%s' % (p_['d'], p_['n']) for p_ in f.params if p_['n'] == 'points'), None)
        gk = next(('v%d:%s' % (p_['d'], p_['n']) for p_ in f.params if p_['n'] == 'polygons'), None)
        # the group's box (pre-filter) is accumulated over EVERY polygon: the bounding_box call inside the loop over the group is
        # not skipped for any polygon (a degenerate polygon still contains the points on it)
        if gk is not None:
            for c in f.walk():
                if c.k == 'CXXMemberCallExpr' and (c.callee or '') == 'gdstk::Polygon::bounding_box':
                    L = LP.enclosing_loop(c)
                    if L is None:
                        continue
                    conds = tables.path_conds(c, stop=L)
                    ctx.check(not conds, 'R-AGG', '%s/box-over-every-polygon@%s' % (qn.replace('gdstk::', ''), c.loc()), c.loc(), 'the group bounding box takes in every polygon of the group',
                              'the bounding box of a polygon is skipped when `%s`: points that only that polygon contains are rejected by the pre-filter before contain() is asked' % ' '.join(conds[0][0].text().split())[:80] if conds else '')
        needp = pk is not None and {pk + '.count': 1} in trips          # some loop runs exactly points.count times (any loop form)
        needg = qn.startswith('gdstk::Polygon::') or (gk is not None and {gk + '.count': 1} in trips)
        ctx.check(needp and needg, 'R-AGG', '%s/all-points-all-polygons' % qn.replace('gdstk::', ''), f.loc(), 'loops run over all points (and all polygons of the group)')


def check_measures(ctx, db):
    a, s, p = db.fn('gdstk::Polygon::area'), db.fn('gdstk::Polygon::signed_area'), db.fn('gdstk::Polygon::perimeter')
    for f in (a, s, p):
        ctx.touch(f)
        first = [x for x in f.body.c if x is not None][0]
        ok = first.k == 'IfStmt' and norm(first.child('cond').text()) == '(this->point_array.count < 3)' and norm(first.child('then').text()) == 'return 0'
        reads = [m for m in f.walk() if m.k == 'MemberExpr' and m.n == 'items' and m.pos < first.pos]
        ctx.check(ok and not reads, 'R-SHAPE', '%s/below-three' % f.qn.replace('gdstk::', ''), f.loc(), 'fewer than three vertices give 0 before any vertex is read')
    la = next(l for l in a.walk() if l.k == 'ForStmt')
    ls = next(l for l in s.walk() if l.k == 'ForStmt')
    pre_a = ''.join(clone.canon(x, a) for x in a.body.c[1:] if x is not None and x.pos <= la.pos)
    pre_s = ''.join(clone.canon(x, s) for x in s.body.c[1:] if x is not None and x.pos <= ls.pos)
    clone.check_family(ctx, 'R-CLONE', 'shoelace', [('Polygon::area', a.loc(), pre_a), ('Polygon::signed_area', s.loc(), pre_s)], 2)
    ra = [x for x in a.walk() if x.k == 'ReturnStmt'][-1]
    rs = [x for x in s.walk() if x.k == 'ReturnStmt'][-1]
    ok = re.match(r'^\(0\.5 \* fabs\(v\d+\)\)$|^\(0\.5 \* fabs\(result\)\)$', norm(ra.child('value').text())) is not None and norm(rs.child('value').text()) == '(0.5 * result)'
    ctx.check(ok, 'R-SHAPE', 'Polygon::area/half-magnitude', a.loc(), 'area = 0.5 |sum|, signed_area = 0.5 sum')

    def rep_mult(f):
        return [x for x in f.walk() if x.k == 'CompoundAssignOperator' and x.op == '*=' and 'get_count' in x.child('rhs').text() and
                any(i.k == 'IfStmt' and norm(i.child('cond').text()) == '(this->repetition.type != RepetitionType::None)' for i in x.ancestors())]
    ctx.check(len(rep_mult(a)) == 1 and len(rep_mult(p)) == 1 and not rep_mult(s) and 'repetition' not in norm(clone.canon(s.body, s)), 'R-DEP', 'measures/repetition-factor', a.loc(),
              'area and perimeter are multiplied by the repetition count; signed_area is not')
    # the factor multiplies the complete sum: no accumulation into the same variable is reachable after the multiplication
    for f in (a, p):
        g = f.cfg
        for x in rep_mult(f):
            key = lvalue_key(_strip_casts(x.child('lhs')))
            accs = [y for y in f.walk() if y.k == 'CompoundAssignOperator' and y.op in ('+=', '-=') and lvalue_key(_strip_casts(y.child('lhs'))) == key]
            wx = g.where_node(x)
            late = None
            for y in accs:
                wy = g.where_node(y)
                if wx is None or wy is None:
                    raise AnalysisBroken('%s: statement not located in the CFG' % f.qn)
                if g.path_avoiding(wx, lambda b, i, nid, wy=wy: (b, i) == wy, lambda b, i, nid: False):
                    late = y
                    break
            ctx.check(late is None and bool(accs), 'R-ORDER', '%s/factor-after-sum' % f.qn.replace('gdstk::', ''), x.loc(), 'the repetition count multiplies the finished sum (%d accumulation sites, none reachable after the multiplication)' % len(accs),
                      'a term is still added at %s after the sum was multiplied by the repetition count: that term is counted once instead of once per copy' % (late.loc() if late is not None else '?'))
    t = norm(clone.canon(p.body, p))
    ok = re.search(r'for \(uint64_t v\d+ = \(this->point_array\.count - 1\); \(v\d+ > 0\); \(v\d+--\)\)', t) is not None and '(this->point_array.items[0] - this->point_array.items[(this->point_array.count - 1)]).length()' in t
    ctx.check(ok, 'R-SHAPE', 'Polygon::perimeter/closed', p.loc(), 'count-1 consecutive edges plus the closing edge from the last to the first vertex')


def check_translation_invariance(ctx, db):
    """Affine typing of the measures: vertices are POSITIONS, differences of vertices are DISPLACEMENTS; cross products,
    inner products and lengths may only be taken of displacements. A shoelace sum over absolute positions is
    mathematically the same area but cancels catastrophically far from the origin (the orientation test of small
    polygons at large coordinates flips), so the measures must be translation invariant by construction."""
    n = 0
    for qn in ('gdstk::Polygon::area', 'gdstk::Polygon::signed_area', 'gdstk::Polygon::perimeter'):
        f = db.fn(qn)
        ctx.touch(f)
        env = {}
        bad = []

        def kind(e):
            e = _strip_casts(e)
            if e is None:
                return None
            while e.k in ('ParenExpr', 'MaterializeTemporaryExpr', 'CXXBindTemporaryExpr', 'CXXConstructExpr', 'ExprWithCleanups') and len([c for c in e.c if c is not None]) == 1:
                e = _strip_casts([c for c in e.c if c is not None][0])
            if e.k == 'UnaryOperator' and e.op == '*':
                return 'P'        # dereferenced cursor into the vertex array
            if e.k in ('ArraySubscriptExpr',) or (e.k == 'CXXOperatorCallExpr' and e.op == '[]'):
                return 'P'
            if e.k == 'DeclRefExpr':
                return env.get(e.n)
            if e.k == 'CXXOperatorCallExpr' and e.op in ('-', '+') and len(e.args) == 2:
                a, b = kind(e.args[0]), kind(e.args[1])
                if e.op == '-':
                    return {('P', 'P'): 'V', ('P', 'V'): 'P', ('V', 'V'): 'V'}.get((a, b))
                return {('P', 'V'): 'P', ('V', 'P'): 'P', ('V', 'V'): 'V'}.get((a, b))
            if e.k == 'CXXOperatorCallExpr' and e.op == '*' and len(e.args) == 2:
                ks = [kind(a_) for a_ in e.args]
                return 'V' if 'V' in ks and 'P' not in ks else None
            return None
        for x in f.walk():
            if x.k == 'VarDecl' and x.child('init') is not None and 'Vec2' in (x.t or '') and '*' not in (x.t or ''):
                env[x.n] = kind(x.child('init'))
            elif is_assign(x) and x.op == '=':
                l = _strip_casts(x.args[0] if x.k == 'CXXOperatorCallExpr' else x.child('lhs'))
                if l.k == 'DeclRefExpr' and l.n in env:
                    k_ = kind(x.args[1] if x.k == 'CXXOperatorCallExpr' else x.child('rhs'))
                    if env[l.n] != k_:
                        env[l.n] = k_ if env[l.n] is None else (env[l.n] if k_ == env[l.n] else 'mixed')
            elif x.k == 'CXXMemberCallExpr' and (x.callee or '').split('::')[-1] in ('cross', 'inner', 'length', 'length_sq'):
                ops = [x.child('obj')] + list(x.args)
                ks = [kind(o) for o in ops]
                n += 1
                if any(k_ != 'V' for k_ in ks):
                    bad.append((x, ks))
        ctx.check(not bad and n > 0, 'R-INVARIANT', '%s/displacements-only' % qn.replace('gdstk::', ''), f.loc(), 'every cross product / length is taken of vertex differences (translation invariant, no cancellation at large coordinates)',
                  '; '.join('%s: `%s` operates on %s' % (x.loc(), norm(x.text())[:50], ['an absolute position' if k_ == 'P' else ('a displacement' if k_ == 'V' else 'an unclassified value') for k_ in ks]) for x, ks in bad[:2]))
    ctx.require('R-INVARIANT products and lengths', n, 3)


def check_inside_writes_all(ctx, db):
    """gdstk::inside reports through a caller-provided array: every entry is written on every path. An early return
    is acceptable only when its guard implies that there are no points (evaluated over the emptiness of both groups)."""
    f = db.fn('gdstk::inside')
    ctx.touch(f)
    body = [s_ for s_ in f.body.c if s_ is not None]
    writes = [x for x in f.walk() if is_assign(x) and norm(x.child('lhs').text()).startswith('result[')]
    loop = next((a for a in writes[0].ancestors() if a.k == 'ForStmt' and a.parent is f.body), None) if writes else None
    if loop is None:
        raise AnalysisBroken('inside: per-point loop writing result[i] not found')
    ok_loop = norm(loop.child('cond').text()).endswith('< points.count)') and any(norm(x.child('rhs').text()) == 'false' and x.parent is loop.child('body') for x in writes)
    ctx.check(ok_loop, 'R-MUSTWRITE', 'inside/every-entry-initialised', loop.loc(), 'the loop over all points starts every iteration by storing false into result[i]')

    def ev(c, pe, ge):
        c = _strip_casts(c)
        if c.k == 'ParenExpr':
            return ev(c.c[0], pe, ge)
        if c.k == 'UnaryOperator' and c.op == '!':
            return not ev(c.child('sub'), pe, ge)
        if c.k == 'BinaryOperator' and c.op in ('&&', '||'):
            a, b = ev(c.child('lhs'), pe, ge), ev(c.child('rhs'), pe, ge)
            return (a and b) if c.op == '&&' else (a or b)
        t = norm(c.text())
        m = re.fullmatch(r'\((points|polygons)\.count (==|!=|>|<) (\d+)\)', t)
        if m and m.group(3) == '0' or (m and m.group(2) == '<' and m.group(3) == '1'):
            empty = pe if m.group(1) == 'points' else ge
            return {'==': empty, '!=': not empty, '>': not empty, '<': empty}[m.group(2)]
        raise AnalysisBroken('inside: early-return guard mentions `%s`' % t[:60])
    bad = []
    for r in f.walk():
        if r.k == 'ReturnStmt' and r.pos < loop.pos:
            g = next((a for a in r.ancestors() if a.k == 'IfStmt'), None)
            if g is None:
                bad.append('%s: unconditional return before the entries are written' % r.loc())
                continue
            for pe in (True, False):
                for ge in (True, False):
                    if ev(g.child('cond'), pe, ge) and not pe:
                        bad.append('%s: returns with %d-point input unwritten when %s' % (r.loc(), 1, 'the polygon group is empty' if ge else 'both groups are non-empty'))
    ctx.check(not bad, 'R-MUSTWRITE', 'inside/no-early-return-with-points', f.loc(), 'no path returns before the per-point loop unless there are no points (an empty polygon group must still answer false for every point)', '; '.join(sorted(set(bad))[:2]))


def run(ctx):
    db = ctx.db
    ctx.attempt(check_prefilters, ctx, db)
    ctx.attempt(check_contain, ctx, db)
    ctx.attempt(check_groups, ctx, db)
    ctx.attempt(check_measures, ctx, db)
    ctx.attempt(check_translation_invariance, ctx, db)
    ctx.attempt(check_inside_writes_all, ctx, db)


MANIFEST = dict(
    text='Decides, by exhaustive enumeration of weak orderings (a finite abstract domain that is exact for comparison-only predicates): soundness of the five bounding-box pre-filters; the 9-case table of Polygon::contain over (p0.x, p1.x) against x (only strictly-left edges may be skipped, right edges counted, all others go through the determinant test that reports on-edge points), the half-open crossing rule, and soundness/completeness of the vertex/horizontal-edge boundary test over 81 orderings; plus: group functions reach a positive verdict only through Polygon::contain, visit all points and polygons, reset a per-point verdict at the start of the iteration of every point, and inside() writes every entry of its output array on every path (no early return while there are points); area/signed_area/perimeter return 0 below three vertices before reading vertices, area and signed_area share one shoelace prologue+loop, the repetition factor applies to area and perimeter only, the perimeter is closed, and all three measures take cross products and lengths of vertex differences only (affine typing: translation invariant by construction). Accumulation of the winding number over whole polygons and floating-point sums are not decided.',
    note='Trusted: clang front end, gx, sa rules. Conditions are interpreted only as Boolean combinations of comparisons; anything else raises analysis-broken.',
    technique='predicate extraction + exhaustive weak-order enumeration (finite abstract domain) + decision-table extraction + clone/shape rules',
    design='§4 C14')
