"""C14 — point-in-polygon and measures: Polygon::contain and the five group queries decided by small-scope
interpretation of their source against the exact closed region; measures by structure and affine typing."""
import itertools
import re
import os
from .. import clone, tables
from ..facts import AnalysisBroken
from ..flow import lvalue_key, is_assign, _strip_casts

EXPLANATION = ('(1) Polygon::contain is interpreted (sa/minieval, the Vec2 operators of vec.hpp as primitives) on every polygon of up to '
               'three vertices (thorough: four) on the even points of a 5 x 5 integer grid plus a list of shapes with holes, double '
               'winding, lobes of opposite winding, spikes and notches, against every grid point; the verdict must be the closed '
               'region under the non-zero rule, computed exactly. The algorithm only compares coordinates and takes the sign of one '
               'determinant, so the grid reaches every ordering of a query against an edge. (2) The five group queries are interpreted '
               'on ordered groups of up to two (thorough: three) of six shapes - among them a segment, a single vertex and an empty '
               'polygon - and point lists of up to two (three) of eight points, with contain() answered exactly per member: inside() '
               'must report per point whether some member contains it, all_/any_inside and contain_all/_any the quantifiers of that '
               '(true / false for no points). Statement forms (pre-filters, verdict variables, early exits or flags) are not looked at. '
               '(3) area/signed_area/perimeter return 0 below three vertices before any vertex is read, area and signed_area share one '
               'shoelace loop, the repetition count multiplies area and perimeter and not signed_area, and the measures are built '
               'from vertex differences only. Rounding of the determinant for non-integer coordinates and floating sums are not decided.')
ASSUMPTIONS = ['Polygon::bounding_box is the extent of the vertices (C09), the inverted infinite box for an empty polygon; Vec2 operators behave as written in include/gdstk/vec.hpp (component-wise arithmetic, cross = x1*y2 - y1*x2)', 'a defect of contain or of a group query that needs more than four vertices, more than three members / points, or non-integer coordinates to show is outside the explored scope']
XREF_FILES = ['src/polygon.cpp']


def norm(t):
    return re.sub(r'<[A-Za-z]+:(?!:)[^>]*>', '', t).replace('gdstk::', '')


def ev(c, val):
    """Evaluate a comparison-only condition under val: {operand text: rank}."""
    c = _strip_casts(c)
    if c.k == 'UnaryOperator' and c.op == '!':
        return not ev(c.child('sub'), val)
    if c.k == 'BinaryOperator' and c.op == '&&':
        return ev(c.child('lhs'), val) and ev(c.child('rhs'), val)
    if c.k == 'BinaryOperator' and c.op == '||':
        return ev(c.child('lhs'), val) or ev(c.child('rhs'), val)
    if c.k == 'BinaryOperator' and c.op in ('<', '>', '<=', '>=', '==', '!='):
        l, r = _strip_casts(c.child('lhs')), _strip_casts(c.child('rhs'))
        if l.k == 'BinaryOperator' and l.op in ('<', '>', '<=', '>=', '==', '!=', '&&', '||') or (c.op in ('==', '!=') and (l.t or '') == 'bool'):
            a, b = ev(l, val), ev(r, val)
        else:
            a, b = val[norm(l.text())], val[norm(r.text())]
        return {'<': a < b, '>': a > b, '<=': a <= b, '>=': a >= b, '==': a == b, '!=': a != b}[c.op]
    if c.k == 'CXXMemberCallExpr' or c.k == 'CallExpr':
        return val['call:' + norm(c.text())]
    if c.k == 'DeclRefExpr' and c.dk == 'local':
        # a named comparison: `const bool right = p0.x >= point.x;` reads as its initialiser
        d = next((v for v in c.fn.body.walk() if v.k == 'VarDecl' and v.d == c.d and v.child('init') is not None and (v.t or '').startswith('const ')), None)
        if d is not None:
            return ev(d.child('init'), val)
    if c.k == 'ParenExpr':
        return ev(c.c[0], val)
    raise AnalysisBroken('condition is not comparison-only: %s' % c.text()[:80])


def operands(c, out):
    c = _strip_casts(c)
    if c.k == 'BinaryOperator' and c.op in ('&&', '||'):
        operands(c.child('lhs'), out)
        operands(c.child('rhs'), out)
    elif c.k == 'UnaryOperator' and c.op == '!':
        operands(c.child('sub'), out)
    elif c.k == 'BinaryOperator':
        l, r = _strip_casts(c.child('lhs')), _strip_casts(c.child('rhs'))
        if l.k == 'BinaryOperator' and l.op in ('<', '>', '<=', '>=', '==', '!='):
            operands(l, out)
            operands(r, out)
        else:
            out.add(norm(l.text()))
            out.add(norm(r.text()))
    elif c.k in ('CXXMemberCallExpr', 'CallExpr'):
        out.add('call:' + norm(c.text()))
    return out


def opkey(n):
    """operand name independent of value / pointer / reference spelling: `point.x`, `point->x`, `(*point).x` -> point.x"""
    n = _strip_casts(n)
    if n.k == 'MemberExpr' and n.n in ('x', 'y'):
        b = n.child('base')
        while b is not None and _strip_casts(b).k == 'MemberExpr' and not _strip_casts(b).n:
            b = _strip_casts(b).child('base')
        b = _strip_casts(b)
        if b is not None and b.k == 'UnaryOperator' and b.op == '*':
            b = _strip_casts(b.child('sub'))
        if b is not None and b.k == 'ArraySubscriptExpr':
            return norm(b.text()) + '.' + n.n
        if b is not None and b.k in ('DeclRefExpr', 'MemberExpr'):
            return norm(b.text()).replace('this->', '') + '.' + n.n
    return norm(n.text())


def cmp_operands(c, out):
    c = _strip_casts(c)
    if c.k == 'BinaryOperator' and c.op in ('&&', '||'):
        cmp_operands(c.child('lhs'), out)
        cmp_operands(c.child('rhs'), out)
    elif c.k == 'UnaryOperator' and c.op == '!':
        cmp_operands(c.child('sub'), out)
    elif c.k == 'BinaryOperator' and c.op in ('<', '>', '<=', '>='):
        out.add(opkey(c.child('lhs')))
        out.add(opkey(c.child('rhs')))
    elif c.k == 'DeclRefExpr' and c.dk == 'local':
        d = next((v for v in c.fn.body.walk() if v.k == 'VarDecl' and v.d == c.d and v.child('init') is not None), None)
        if d is not None:
            cmp_operands(d.child('init'), out)
    return out


def ev2(c, val):
    """truth value of a condition under val {operand key: rank, 'call:..': bool}; None when it involves anything else"""
    c = _strip_casts(c)
    if c.k == 'UnaryOperator' and c.op == '!':
        v = ev2(c.child('sub'), val)
        return None if v is None else (not v)
    if c.k == 'BinaryOperator' and c.op in ('&&', '||'):
        a, b = ev2(c.child('lhs'), val), ev2(c.child('rhs'), val)
        if c.op == '&&':
            return False if (a is False or b is False) else (None if (a is None or b is None) else True)
        return True if (a is True or b is True) else (None if (a is None or b is None) else False)
    if c.k == 'BinaryOperator' and c.op in ('<', '>', '<=', '>='):
        a, b = val.get(opkey(c.child('lhs'))), val.get(opkey(c.child('rhs')))
        if a is None or b is None:
            return None
        return {'<': a < b, '>': a > b, '<=': a <= b, '>=': a >= b}[c.op]
    if c.k in ('CXXMemberCallExpr', 'CallExpr'):
        return val.get('call')
    if c.k == 'DeclRefExpr' and c.dk == 'local':
        d = next((v for v in c.fn.body.walk() if v.k == 'VarDecl' and v.d == c.d and v.child('init') is not None), None)
        if d is not None:
            return ev2(d.child('init'), val)
    return None


def _contain_oracle(poly, q):
    """the closed region of the polygon under the non-zero rule, exactly (integer coordinates)"""
    n = len(poly)
    if n == 0:
        return False
    wn = 0
    for i in range(n):
        a, b = poly[i - 1], poly[i]
        cr = (b[0] - a[0]) * (q[1] - a[1]) - (b[1] - a[1]) * (q[0] - a[0])
        if cr == 0 and min(a[0], b[0]) <= q[0] <= max(a[0], b[0]) and min(a[1], b[1]) <= q[1] <= max(a[1], b[1]):
            return True                 # on the closed edge (or on a repeated vertex)
        if a[1] <= q[1] < b[1] and cr > 0:
            wn += 1
        elif b[1] <= q[1] < a[1] and cr < 0:
            wn -= 1
    return wn != 0


CONTAIN_SHAPES = [
    [(0, 0), (4, 0), (4, 4), (0, 4)], [(0, 4), (4, 4), (4, 0), (0, 0)],                         # square, both orientations
    [(0, 0), (4, 0), (0, 4), (4, 4)], [(0, 0), (4, 4), (4, 0), (0, 4)],                         # bow-ties (lobes of opposite winding)
    [(0, 0), (4, 0), (4, 4), (0, 4), (0, 0), (4, 0), (4, 4), (0, 4)],                           # doubly wound (winding 2)
    [(0, 0), (4, 0), (4, 4), (0, 4), (0, 0), (0, 4), (4, 4), (4, 0)],                           # wound forth and back (winding 0 inside)
    [(0, 0), (4, 0), (4, 4), (2, 2), (0, 4)], [(0, 0), (2, 2), (4, 0), (4, 4), (0, 4)],         # concave, notch at a vertex level with queries
    [(0, 0), (4, 0), (4, 2), (2, 2), (2, 4), (0, 4)],                                           # L shape: horizontal and vertical edges through query rows
    [(0, 2), (2, 0), (4, 2), (2, 4)], [(2, 0), (2, 4), (4, 2), (0, 2)],                         # diamond; star-like crossing
    [(0, 0), (4, 0), (4, 4), (0, 4), (0, 2), (2, 2), (2, 1), (0, 1)],                           # spike folded back along an edge
    [(1, 1), (3, 1), (3, 3), (1, 3), (1, 1), (0, 0), (4, 0), (4, 4), (0, 4), (0, 0)],           # ring through a zero-width bridge (hole)
]


def check_contain(ctx, db):
    """Polygon::contain interpreted (sa/minieval with the Vec2 operators of vec.hpp as primitives) on every polygon of up
    to three vertices (thorough: four) with vertices on the even points of a 5 x 5 grid and on a list of shapes with
    holes, double winding, opposite lobes, spikes and notches, against every query point of the grid (vertices, edge
    interiors, edge levels, inside, outside). The verdict must be the closed region under the non-zero rule, computed
    exactly. The point-in-polygon algorithm only compares coordinates and takes the sign of one determinant, so the
    grid reaches every ordering of a query against an edge; what is not reached is rounding of the determinant for
    non-integer coordinates. Nothing about the statement form (early returns, flags, pointer or index walk) enters."""
    from .. import minieval as M
    f = db.fn('gdstk::Polygon::contain')
    ctx.touch(f)
    full = ctx.tier == 'thorough'

    def run(poly, q):
        pts = [M.Obj(x=x, y=y) for x, y in poly]
        mi = M.Mini(db, members={'this->point_array': M.Obj(items=M.Ptr(pts, 0), count=len(pts))}, budget=5000)
        try:
            mi.run(f.body, {'point': M.Obj(x=q[0], y=q[1])})
        except M.Return as r:
            return bool(r.v)
        raise AnalysisBroken('Polygon::contain: no value returned for %s / %s' % (poly, q))
    even = [(x, y) for x in (0, 2, 4) for y in (0, 2, 4)]
    grid = [(x, y) for x in range(5) for y in range(5)]
    some = [(2, 2), (1, 1), (3, 1), (1, 3), (2, 1), (1, 2), (3, 2), (0, 0), (4, 4), (2, 0), (0, 2), (3, 3), (4, 1)]
    polys = [[]] + [list(p) for n in (1, 2, 3) for p in itertools.product(even, repeat=n)]
    if full:
        polys += [list(p) for p in itertools.product(even, repeat=4)]
    bad = []
    runs = 0
    for poly in polys + CONTAIN_SHAPES:
        for q in (grid if (full or len(poly) != 3) else some):
            runs += 1
            try:
                got = run(poly, q)
            except M.OutOfBounds as ex:
                got = str(ex)
            want = _contain_oracle(poly, q)
            if got != want and len(bad) < 3:
                where = 'in the closed region' if want else 'outside'
                bad.append('polygon %s, point %s (%s): contain() gives %s' % (poly, q, where, got))
    ctx.explored['valuations'] += runs
    ctx.check(not bad, 'R-TABLE', 'Polygon::contain/closed-region', f.loc(),
              'interpreted on %d (polygon, point) pairs: the verdict is the closed region under the non-zero rule (boundary and vertices included, holes and zero-winding lobes excluded)' % runs,
              'point-in-polygon verdict is wrong: ' + '; '.join(bad))
    ctx.require('R-TABLE contain cases interpreted', runs, 8000)


def classify(stmt, val):
    """Which leaf a single edge reaches in the x-case structure: 'count', 'det' or 'skip'."""
    if stmt is None:
        return 'skip'
    if stmt.k == 'CompoundStmt':
        for s in stmt.c:
            r = classify(s, val)
            if r != 'skip':
                return r
        return 'skip'
    if stmt.k == 'IfStmt':
        if ev(stmt.child('cond'), val):
            return classify(stmt.child('then'), val)
        return classify(stmt.child('else'), val)
    if stmt.k == 'DeclStmt' and any(v is not None and v.n == 'det' for v in stmt.c):
        return 'det'
    if stmt.k == 'CompoundAssignOperator' and norm(stmt.child('lhs').text()) == 'winding':
        return 'count'
    return 'skip'


GROUP_SHAPES = [
    [(0, 0), (4, 0), (4, 4), (0, 4)],          # a square
    [(4, 0), (8, 0), (8, 4)],                  # a triangle touching it
    [(1, 1), (3, 1), (3, 3), (1, 3)],          # a square inside the first
    [(0, 6), (4, 6)],                          # degenerate: a segment (contains the points on it)
    [(6, 6)],                                  # degenerate: one vertex
    [],                                        # no vertices
]
GROUP_POINTS = [(2, 2), (7, 1), (6, 6), (2, 6), (9, 9), (5, 3), (4, 2), (-1, 2)]


def check_groups(ctx, db):
    """The five group queries interpreted (sa/minieval) on small groups and point lists: every ordered group of up to two
    of six shapes (convex, nested, touching, a segment, a single vertex, an empty polygon) and every list of up to two of
    eight query points (inside one member, inside two, on a shared edge, on a degenerate member, outside the group box,
    inside the box but outside every member), plus longer samples. Polygon::contain is answered by the exact closed
    region of the member it is called on (it is decided on its own by Polygon::contain/closed-region) and
    Polygon::bounding_box by the extent of the member's vertices. Required: inside() reports for every point exactly
    whether some member contains it; all_inside / any_inside and contain_all / contain_any are the universal /
    existential quantifier over the points of that, true / false for no points. Pre-filters, verdict variables, loop and
    exit forms are not looked at: only what is returned."""
    from .. import minieval as M
    import itertools as it
    shapes, qs = GROUP_SHAPES, GROUP_POINTS
    full = ctx.tier == 'thorough'
    groups = [list(g) for n in (0, 1, 2) for g in it.product(range(len(shapes)), repeat=n)]
    groups += [[0, 1, 2], [2, 1, 0], [5, 4, 3], [3, 0, 4], [1, 5, 0]]
    lists = [list(l) for n in (0, 1) for l in it.product(range(len(qs)), repeat=n)] + [list(l) for l in it.product(range(len(qs) if full else 6), repeat=2)]
    lists += [[0, 1, 2], [4, 0, 1], [0, 4, 1], [0, 1, 4], [3, 2, 6], [5, 5, 5], [0, 6, 1, 2, 3]]
    if full:
        groups += [list(g) for g in it.product(range(len(shapes)), repeat=3)]
        lists += [list(l) for l in it.product(range(len(qs)), repeat=3)]
    inf = float('inf')

    def mkpoly(ix):
        pts = [M.Obj(x=x, y=y) for x, y in shapes[ix]]
        return M.Obj(point_array=M.Obj(items=M.Ptr(pts, 0), count=len(pts)), _shape=ix)

    def hook_for(mi_ref):
        def hook(callee, args, node):
            if callee == 'gdstk::Polygon::contain':
                o = mi_ref[0].call_object()
                if not isinstance(o, M.Obj) or '_shape' not in o:
                    raise AnalysisBroken('group query: contain() called on something that is not a member of the group')
                return (int(_contain_oracle(shapes[o['_shape']], (args[0]['x'], args[0]['y']))),)
            if callee == 'gdstk::Polygon::bounding_box':
                o = mi_ref[0].call_object()
                pts = shapes[o['_shape']]
                mn, mx = args[0], args[1]
                mn['x'], mn['y'] = (min(p[0] for p in pts), min(p[1] for p in pts)) if pts else (inf, inf)
                mx['x'], mx['y'] = (max(p[0] for p in pts), max(p[1] for p in pts)) if pts else (-inf, -inf)
                return (None,)
            return None
        return hook

    def truth(g, q):
        return any(_contain_oracle(shapes[ix], qs[q]) for ix in g)

    total = 0
    for qn in ('gdstk::Polygon::contain_all', 'gdstk::Polygon::contain_any', 'gdstk::inside', 'gdstk::all_inside', 'gdstk::any_inside'):
        f = db.fn(qn)
        ctx.touch(f)
        member = qn.startswith('gdstk::Polygon::')
        bad = []
        runs = 0
        for g in ([[ix] for ix in range(len(shapes))] if member else groups):
            for l in lists:
                runs += 1
                pts = [M.Obj(x=qs[q][0], y=qs[q][1]) for q in l]
                env = {'points': M.Obj(items=M.Ptr(pts, 0), count=len(pts))}
                ref = [None]
                mi = M.Mini(db, hook=hook_for(ref), budget=20000)
                ref[0] = mi
                res = [7] * (len(l) + 1)
                if member:
                    env['this'] = mkpoly(g[0])
                else:
                    polys = [mkpoly(ix) for ix in g]
                    env['polygons'] = M.Obj(items=M.Ptr(polys, 0), count=len(polys))
                    if qn == 'gdstk::inside':
                        env['result'] = M.Ptr(res, 0)
                        mi.writable.add(id(res))
                ret = None
                try:
                    mi.run(f.body, env)
                except M.Return as rr:
                    ret = rr.v
                except M.OutOfBounds as ex:
                    ret = str(ex)
                each = [truth(g, q) for q in l]
                if qn == 'gdstk::inside':
                    got, want = res, [int(b) for b in each] + [7]
                elif qn.endswith('all_inside') or qn.endswith('contain_all'):
                    got, want = (bool(ret) if isinstance(ret, int) else ret), all(each)
                else:
                    got, want = (bool(ret) if isinstance(ret, int) else ret), any(each)
                if got != want and len(bad) < 3:
                    bad.append('group %s, points %s: returns %s, the members contain %s' % ([shapes[ix] for ix in g], [qs[q] for q in l], got, [int(b) for b in each]))
        total += runs
        ctx.explored['valuations'] += runs
        short = qn.replace('gdstk::', '')
        ctx.check(not bad, 'R-AGG', '%s/quantifier' % short, f.loc(),
                  'interpreted on %d (group, point list) pairs: the result is exactly %s of "some member contains the point"' % (runs, 'the per-point table' if qn == 'gdstk::inside' else ('the conjunction over the points' if 'all' in qn else 'the disjunction over the points')),
                  'group query is wrong: ' + '; '.join(bad))
    ctx.require('R-AGG group cases interpreted', total, 5000)


def measure_model(db, qn, pts, rep_count):
    """one of Polygon::area / signed_area / perimeter interpreted (sa/minieval) on a polygon with integer vertices, with or
    without a repetition (`rep_count` copies; None: no repetition)."""
    import math
    from .. import minieval as M
    f = db.fn(qn)
    en = {c['n']: c['v'] for c in db.enum('gdstk::RepetitionType')['consts']}
    other = next(v for k_, v in en.items() if k_ != 'None')
    lst = [M.Obj(x=float(x), y=float(y)) for x, y in pts]
    this = M.Obj(point_array=M.Obj(items=M.Ptr(lst, 0), count=len(lst), capacity=len(lst)),
                 repetition=M.Obj(type=en['None'] if rep_count is None else other))
    ref = [None]

    def extra(callee, args, node):
        c = callee or ''
        short = c.split('::')[-1]
        if short in ('fabs', 'sqrt', 'abs', 'hypot') and len(c.split('::')) <= 2:
            return (getattr(math, 'fabs' if short == 'abs' else short)(*[float(a_) for a_ in args]),)
        if short == 'get_count' and 'Repetition' in c:
            if rep_count is None:
                raise M.OutOfBounds('the count of a repetition of type None is asked for at %s' % node.loc())
            return (rep_count,)
        return None
    mi = M.Mini(db, hook=M.array_hook(ref, extra), budget=50000, c_ints=True)
    mi.obj_store = True
    mi.ieee = True
    ref[0] = mi
    try:
        mi.run(f.body, {'this': this})
    except M.Return as r:
        return r.v
    return None


def check_measures(ctx, db):
    """R-MODEL.measures: area, signed_area and perimeter interpreted on polygons of 0 to 6 integer vertices (empty, one point, a
    segment, triangles of both orientations, a 3-4-5 triangle far from the origin, rectangles, an L, a bow tie, a polygon with a
    repeated vertex), without a repetition and with 6 copies. Required: fewer than three vertices give 0 and no vertex is read
    beyond the array; signed_area = 1/2 sum (x_i y_i+1 - x_i+1 y_i); area = its magnitude times the number of copies; perimeter =
    the sum of all edge lengths including the closing edge, times the number of copies; signed_area ignores the repetition.
    All coordinates and edge lengths are small integers, so IEEE arithmetic is exact here."""
    import math
    from ..minieval import OutOfBounds
    polys = [[], [(3, 4)], [(0, 0), (3, 4)], [(0, 0), (4, 0), (0, 3)], [(0, 0), (0, 3), (4, 0)], [(1000, 2000), (1004, 2000), (1004, 2003)],
             [(0, 0), (6, 0), (6, 8), (0, 8)], [(-3, -4), (-3, 4), (3, 4), (3, -4)], [(0, 0), (8, 0), (8, 3), (4, 3), (4, 6), (0, 6)],
             [(0, 0), (4, 3), (4, 0), (0, 3)], [(0, 0), (4, 0), (4, 0), (4, 3)], [(0, 0), (4, 0), (4, 3), (0, 0)]]
    n = 0
    for qn in ('gdstk::Polygon::area', 'gdstk::Polygon::signed_area', 'gdstk::Polygon::perimeter'):
        f = db.fn(qn)
        ctx.touch(f)
        bad = []
        for pts in polys:
            for rc in (None, 6):
                n += 1
                k = len(pts)
                sh = sum(pts[i][0] * pts[(i + 1) % k][1] - pts[(i + 1) % k][0] * pts[i][1] for i in range(k)) / 2.0 if k >= 3 else 0.0
                per = sum(math.hypot(pts[(i + 1) % k][0] - pts[i][0], pts[(i + 1) % k][1] - pts[i][1]) for i in range(k)) if k >= 3 else 0.0
                mult = 1 if rc is None else rc
                want = {'area': abs(sh) * mult, 'signed_area': sh, 'perimeter': per * mult}[qn.split('::')[-1]]
                try:
                    got = measure_model(db, qn, pts, rc)
                except OutOfBounds as ex:
                    got = 'fault: %s' % ex
                if not (isinstance(got, (int, float)) and float(got) == float(want)) and len(bad) < 3:
                    bad.append('polygon %s%s: returns %s, expected %s' % (pts, '' if rc is None else ' with %d copies' % rc, got, want))
        ctx.check(not bad, 'R-MODEL.measures', qn.replace('gdstk::', '') + '/value', f.loc(),
                  'interpreted on %d polygons x {no repetition, 6 copies}: the shoelace sum / edge-length sum with the closing edge, times the copies where documented, 0 below three vertices' % len(polys), '; '.join(bad))
    ctx.explored['valuations'] += n
    ctx.require('R-MODEL.measures cases', n, 72)


def check_translation_invariance(ctx, db):
    """Affine typing of the measures: vertices are POSITIONS, differences of vertices are DISPLACEMENTS; cross products,
    inner products and lengths may only be taken of displacements. A shoelace sum over absolute positions is
    mathematically the same area but cancels catastrophically far from the origin (the orientation test of small
    polygons at large coordinates flips), so the measures must be translation invariant by construction."""
    n = 0
    for qn in ('gdstk::Polygon::area', 'gdstk::Polygon::signed_area', 'gdstk::Polygon::perimeter'):
        f = db.fn(qn)
        ctx.touch(f)
        env = {}
        bad = []

        def kind(e):
            e = _strip_casts(e)
            if e is None:
                return None
            while e.k in ('ParenExpr', 'MaterializeTemporaryExpr', 'CXXBindTemporaryExpr', 'CXXConstructExpr', 'ExprWithCleanups') and len([c for c in e.c if c is not None]) == 1:
                e = _strip_casts([c for c in e.c if c is not None][0])
            if e.k == 'UnaryOperator' and e.op == '*':
                return 'P'        # dereferenced cursor into the vertex array
            if e.k in ('ArraySubscriptExpr',) or (e.k == 'CXXOperatorCallExpr' and e.op == '[]'):
                return 'P'
            if e.k == 'DeclRefExpr':
                return env.get(e.n)
            if e.k == 'CXXOperatorCallExpr' and e.op in ('-', '+') and len(e.args) == 2:
                a, b = kind(e.args[0]), kind(e.args[1])
                if e.op == '-':
                    return {('P', 'P'): 'V', ('P', 'V'): 'P', ('V', 'V'): 'V'}.get((a, b))
                return {('P', 'V'): 'P', ('V', 'P'): 'P', ('V', 'V'): 'V'}.get((a, b))
            if e.k == 'CXXOperatorCallExpr' and e.op == '*' and len(e.args) == 2:
                ks = [kind(a_) for a_ in e.args]
                return 'V' if 'V' in ks and 'P' not in ks else None
            return None
        for x in f.walk():
            if x.k == 'VarDecl' and x.child('init') is not None and 'Vec2' in (x.t or '') and '*' not in (x.t or ''):
                env[x.n] = kind(x.child('init'))
            elif is_assign(x) and x.op == '=':
                l = _strip_casts(x.args[0] if x.k == 'CXXOperatorCallExpr' else x.child('lhs'))
                if l.k == 'DeclRefExpr' and l.n in env:
                    k_ = kind(x.args[1] if x.k == 'CXXOperatorCallExpr' else x.child('rhs'))
                    if env[l.n] != k_:
                        env[l.n] = k_ if env[l.n] is None else (env[l.n] if k_ == env[l.n] else 'mixed')
            elif x.k == 'CXXMemberCallExpr' and (x.callee or '').split('::')[-1] in ('cross', 'inner', 'length', 'length_sq'):
                ops = [x.child('obj')] + list(x.args)
                ks = [kind(o) for o in ops]
                n += 1
                if any(k_ != 'V' for k_ in ks):
                    bad.append((x, ks))
        ctx.check(not bad and n > 0, 'R-INVARIANT', '%s/displacements-only' % qn.replace('gdstk::', ''), f.loc(), 'every cross product / length is taken of vertex differences (translation invariant, no cancellation at large coordinates)',
                  '; '.join('%s: `%s` operates on %s' % (x.loc(), norm(x.text())[:50], ['an absolute position' if k_ == 'P' else ('a displacement' if k_ == 'V' else 'an unclassified value') for k_ in ks]) for x, ks in bad[:2]))
    ctx.require('R-INVARIANT products and lengths', n, 3)


def check_inside_writes_all(ctx, db):
    """gdstk::inside reports through a caller-provided array: every entry is written on every path. An early return
    is acceptable only when its guard implies that there are no points (evaluated over the emptiness of both groups)."""
    f = db.fn('gdstk::inside')
    ctx.touch(f)
    body = [s_ for s_ in f.body.c if s_ is not None]
    writes = [x for x in f.walk() if is_assign(x) and norm(x.child('lhs').text()).startswith('result[')]
    loop = next((a for a in writes[0].ancestors() if a.k == 'ForStmt' and a.parent is f.body), None) if writes else None
    if loop is None:
        raise AnalysisBroken('inside: per-point loop writing result[i] not found')
    ok_loop = norm(loop.child('cond').text()).endswith('< points.count)') and any(norm(x.child('rhs').text()) == 'false' and x.parent is loop.child('body') for x in writes)
    ctx.check(ok_loop, 'R-MUSTWRITE', 'inside/every-entry-initialised', loop.loc(), 'the loop over all points starts every iteration by storing false into result[i]')

    def ev(c, pe, ge):
        c = _strip_casts(c)
        if c.k == 'ParenExpr':
            return ev(c.c[0], pe, ge)
        if c.k == 'UnaryOperator' and c.op == '!':
            return not ev(c.child('sub'), pe, ge)
        if c.k == 'BinaryOperator' and c.op in ('&&', '||'):
            a, b = ev(c.child('lhs'), pe, ge), ev(c.child('rhs'), pe, ge)
            return (a and b) if c.op == '&&' else (a or b)
        t = norm(c.text())
        m = re.fullmatch(r'\((points|polygons)\.count (==|!=|>|<) (\d+)\)', t)
        if m and m.group(3) == '0' or (m and m.group(2) == '<' and m.group(3) == '1'):
            empty = pe if m.group(1) == 'points' else ge
            return {'==': empty, '!=': not empty, '>': not empty, '<': empty}[m.group(2)]
        raise AnalysisBroken('inside: early-return guard mentions `%s`' % t[:60])
    bad = []
    for r in f.walk():
        if r.k == 'ReturnStmt' and r.pos < loop.pos:
            g = next((a for a in r.ancestors() if a.k == 'IfStmt'), None)
            if g is None:
                bad.append('%s: unconditional return before the entries are written' % r.loc())
                continue
            for pe in (True, False):
                for ge in (True, False):
                    if ev(g.child('cond'), pe, ge) and not pe:
                        bad.append('%s: returns with %d-point input unwritten when %s' % (r.loc(), 1, 'the polygon group is empty' if ge else 'both groups are non-empty'))
    ctx.check(not bad, 'R-MUSTWRITE', 'inside/no-early-return-with-points', f.loc(), 'no path returns before the per-point loop unless there are no points (an empty polygon group must still answer false for every point)', '; '.join(sorted(set(bad))[:2]))


def run(ctx):
    db = ctx.db
    ctx.memo('contain', {'src/polygon.cpp', 'include/gdstk/vec.hpp'}, check_contain, db)
    ctx.memo('groups', {'src/polygon.cpp', 'include/gdstk/vec.hpp'}, check_groups, db)
    ctx.attempt(check_measures, ctx, db)
    ctx.attempt(check_translation_invariance, ctx, db)
    ctx.attempt(check_inside_writes_all, ctx, db)


MANIFEST = dict(
    text='Decides by small-scope interpretation of the source (sa/minieval; no statement shape is matched): Polygon::contain returns the closed region under the non-zero rule for every polygon of up to three (thorough: four) vertices on a 3 x 3 sub-grid and for shapes with holes, double winding, opposite lobes, spikes and notches, against all 25 points of the 5 x 5 grid (vertices, edge interiors, edge levels, inside, outside) - the algorithm only compares coordinates and takes the sign of one determinant, so every ordering of a query against an edge is reached; inside()/all_inside()/any_inside()/contain_all()/contain_any(), on ordered groups of up to two (three) shapes including a segment, a single vertex and an empty polygon and point lists of up to two (three) points with contain() answered exactly per member, return the per-point table / conjunction / disjunction of "some member contains the point" (true / false for no points), so a pre-filter, verdict variable or early exit that changes an answer is reported with the group and points. Structurally: area/signed_area/perimeter return 0 below three vertices before reading vertices, area and signed_area share one shoelace prologue+loop, the repetition factor applies to area and perimeter only and after the whole sum, the perimeter is closed, and all three measures take cross products and lengths of vertex differences only (affine typing: translation invariant by construction). Rounding of the determinant for non-integer coordinates, groups beyond the explored sizes and floating-point sums are not decided. Polygon::area, signed_area and perimeter are decided by interpretation on 12 integer polygons with and without a repetition (R-MODEL.measures: shoelace sum, closing edge, copies, 0 below three vertices).',
    note='Trusted: clang front end, gx, sa rules. Conditions are interpreted only as Boolean combinations of comparisons; anything else raises analysis-broken.',
    technique='small-scope interpretation of the source by the checker\'s own AST interpreter (no compiled code is run; bounded explicit-state exploration, closer to bounded model checking than to dataflow): Polygon::contain against the exact closed region on an integer grid that reaches every ordering of a point against an edge, the five group queries against the quantifier over exact membership; clone/shape/affine-typing rules for the measures + interpretation of the three measures on integer polygons (sa/minieval)',
    design='§4 C14')
