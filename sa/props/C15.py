"""C15 — curves and primitives: command operand consumption (+ sibling table with RobustPath),
last_ctrl written in absolute coordinates by every section method, vertex-count clamp dominates
every division by n-1, adaptive samplers end exactly at t = 1. (DESIGN §4 C15)"""
import re
from .. import consume, clone, tables
from ..facts import AnalysisBroken
from ..flow import lvalue_key, is_assign, _strip_casts, pretty_key

EXPLANATION = ('R-CONSUME: each arm of Curve::commands consumes exactly the operands its guard and advance constants state, and its '
               'letter -> method table equals RobustPath::commands\'. R-MUSTWRITE: every section method stores last_ctrl on every '
               'path (or delegates to one that does); R-DEP: whenever the method has a `relative` mode, the stored control point is '
               'absolute on the relative path (its value depends on the current end point / the absolute control polygon, never '
               'only on the caller\'s relative list). R-CLAMP: every vertex count obtained from arc_num_points that is used as a '
               'divisor (n - 1) is dominated by a clamp to a constant >= 2 or lies in the branch that excludes n == 1. R-SHAPE: the '
               'adaptive samplers clamp the parameter step to the section end before evaluating the next vertex. Tolerance and '
               'finiteness of sampled vertices are not decided.')
ASSUMPTIONS = ['arc_num_points returns a non-negative count (utils.cpp)']
XREF_FILES = ['src/curve.cpp']

SECTION_METHODS = ['horizontal', 'vertical', 'segment', 'cubic', 'cubic_smooth', 'quadratic', 'quadratic_smooth', 'bezier', 'arc']
DELEGATES = {'interpolation': 'cubic', 'turn': 'arc'}
EXEMPT = {'parametric': 'the tangent of a user function is unknown; upstream leaves last_ctrl unchanged'}


def norm(t):
    return re.sub(r'<[A-Za-z]+:(?!:)[^>]*>', '', t).replace('gdstk::', '')


def deps_closure(fn, expr):
    """names (access paths) an expression depends on, transitively through locals' definitions"""
    defs = {}
    for n in fn.walk():
        if n.k == 'VarDecl' and n.child('init') is not None:
            defs.setdefault(n.n, []).append(n.child('init'))
        elif is_assign(n):
            l = _strip_casts(n.child('lhs'))
            base = l
            while base is not None and base.k in ('ArraySubscriptExpr', 'CXXOperatorCallExpr', 'MemberExpr', 'UnaryOperator'):
                if base.k == 'CXXOperatorCallExpr':
                    base = base.args[0] if base.args else None
                elif base.k == 'MemberExpr' and base.child('base') is not None and base.child('base').k == 'CXXThisExpr':
                    break
                else:
                    base = base.c[0] if base.c else None
                base = _strip_casts(base) if base is not None else None
            if base is not None and base.k == 'DeclRefExpr' and base.dk == 'local':
                defs.setdefault(base.n, []).append(n.child('rhs'))
    out = set()
    seen = set()
    work = [expr]
    while work:
        e = work.pop()
        for x in e.walk():
            if x.k == 'MemberExpr' and x.child('base') is not None and x.child('base').k == 'CXXThisExpr':
                out.add('this->' + x.n)
            elif x.k == 'DeclRefExpr' and x.dk in ('local', 'param'):
                out.add(x.n)
                if x.dk == 'local' and x.n not in seen:
                    seen.add(x.n)
                    work.extend(defs.get(x.n, []))
    return out


def check_straight_last_ctrl(ctx, db):
    """R-STATE: after a straight section (horizontal / vertical / segment, single coordinate or list) the remembered control
    point is the vertex before the new end point - the tangent the next smooth section or turn continues along. The store
    `last_ctrl = point_array[count + k]` and the number A of vertices appended after it must satisfy k = A - 2 on every
    path (k = -1 before one append, k = -2 after the whole list was appended), as linear forms over the list length."""
    from .. import linear
    n = 0
    for name in ('horizontal', 'vertical', 'segment'):
        for f in db.fn('gdstk::Curve::' + name, all=True):
            ctx.touch(f)
            key = 'Curve::%s#%s' % (name, f.params[0]['t'].replace('gdstk::', '').replace('const ', ''))
            CNT = 'this->point_array.count'

            def index_of(e):
                """e == point_array[idx] (operator[] or items[idx]) -> idx"""
                e = _strip_casts(e)
                while e is not None and e.k in ('ParenExpr', 'CXXConstructExpr', 'MaterializeTemporaryExpr') and len([c for c in e.c if c is not None]) == 1:
                    e = _strip_casts([c for c in e.c if c is not None][0])
                if e is None:
                    return None
                if e.k == 'CXXOperatorCallExpr' and (e.callee or '').endswith('operator[]') and len(e.args) == 2 and norm(e.args[0].text()) == 'this->point_array':
                    return e.args[1]
                if e.k == 'ArraySubscriptExpr' and norm((e.child('base') or e.c[0]).text()) == 'this->point_array.items':
                    return e.child('idx') or e.c[1]
                return None

            class Unknown(Exception):
                pass

            def appended(stmts, after):
                """vertices appended by the statements at positions > after, as a linear form (same on both branches of an if)"""
                tot = {}
                for st in stmts:
                    if st is None:
                        continue
                    if st.k == 'CompoundStmt':
                        tot = linear.lin_add(tot, appended(st.c, after))
                    elif st.k == 'IfStmt':
                        a = appended([st.child('then')], after)
                        b = appended([st.child('else')], after) if st.child('else') is not None else {}
                        cl = lambda d_: {k_: v_ for k_, v_ in d_.items() if v_ != 0}
                        if cl(a) != cl(b):
                            raise Unknown()
                        tot = linear.lin_add(tot, a)
                    elif st.k in ('ForStmt', 'WhileStmt', 'DoStmt'):
                        if any(x.pos > after and _appends(x) is not None for x in st.walk()):
                            raise Unknown()
                    else:
                        for x in st.walk():
                            if x.pos > after and _appends(x) is not None:
                                tot = linear.lin_add(tot, _appends(x))
                return tot

            def _appends(x):
                if x.k == 'CXXMemberCallExpr' and (x.callee or '').split('::')[-1] in ('append', 'append_unsafe') and x.child('obj') is not None and norm(x.child('obj').text()) == 'this->point_array':
                    return {1: 1}
                if x.k == 'CompoundAssignOperator' and x.op == '+=' and lvalue_key(x.child('lhs')) == CNT:
                    return linear.lin_of(f, x.child('rhs'), x, opaque=(CNT,)) or {('expr', x.text()): 1}
                if is_assign(x) and x.op == '=' and lvalue_key(x.child('lhs')) == CNT:
                    return {('expr', x.text()): 1}
                if x.k == 'CXXMemberCallExpr' and (x.callee or '').split('::')[-1] == 'extend' and x.child('obj') is not None and norm(x.child('obj').text()) == 'this->point_array':
                    return {('expr', x.text()): 1}
                return None
            stores = [x for x in f.walk() if is_assign(x) and lvalue_key(x.child('lhs')) == 'this->last_ctrl']
            for st in stores:
                idx = index_of(st.child('rhs'))
                if idx is None:
                    continue
                n += 1
                li = linear.lin_of(f, idx, st, opaque=(CNT,))
                cl = lambda d_: {k_: v_ for k_, v_ in (d_ or {}).items() if v_ != 0}
                try:
                    A = appended([f.body], st.pos)
                    want = linear.lin_add({CNT: 1, 1: -2}, A)
                    ok = li is not None and cl(li) == cl(want)
                    why = 'last_ctrl is read from index `%s`, and %s vertices are appended after that: it is not the vertex before the new end point (expected index count + appended - 2)' % (norm(idx.text()), A.get(1, 0) if set(cl(A)) <= {1} else 'a list of')
                except Unknown:
                    ok, why = False, 'vertices are appended after the store on some paths only, or in a loop: the stored control point is not the vertex before the new end point'
                ctx.check(ok, 'R-STATE', key + '/last_ctrl-is-previous-vertex@%d' % st.l, st.loc(), 'last_ctrl is the vertex before the new end point', why)
    ctx.require('R-STATE straight-section last_ctrl stores', n, 5)


def check_last_ctrl(ctx, db):
    n = 0
    for name in SECTION_METHODS:
        for f in db.fn('gdstk::Curve::' + name, all=True):
            ctx.touch(f)
            g = f.cfg
            n += 1
            key = 'Curve::%s#%s' % (name, f.params[0]['t'].replace('gdstk::', '').replace('const ', ''))
            stores = [x for x in f.walk() if is_assign(x) and lvalue_key(x.child('lhs')) == 'this->last_ctrl']
            # every call that appends vertices is dominated or post-dominated by a store
            apps = [c for c in f.walk() if c.k == 'CXXMemberCallExpr' and ((c.callee or '').startswith('gdstk::Curve::append') or
                    ((c.callee or '').split('::')[-1] in ('append', 'append_unsafe', 'extend') and norm(c.child('obj').text()) == 'this->point_array'))]
            cnt = [x for x in f.walk() if is_assign(x) and lvalue_key(x.child('lhs')) == 'this->point_array.count']
            bad = None
            for a in apps + cnt:
                wa = g.where_node(a)
                if wa is None:
                    continue
                if not any((g.where_node(s_) is not None) and (g.dominates(g.where_node(s_), wa) or g.postdominates(g.where_node(s_), wa)) for s_ in stores):
                    bad = a
            ctx.check(bad is None and bool(stores) and bool(apps + cnt), 'R-MUSTWRITE', key + '/last_ctrl', f.loc(), 'every path that appends vertices also stores last_ctrl (%d append sites)' % len(apps + cnt),
                      'vertices are appended at %s on a path that does not store last_ctrl (smooth continuations then reflect a stale control point)' % (bad.loc() if bad is not None else '?'))
            rel = f.param('relative')
            if rel is None:
                continue
            for s in stores:
                in_abs_branch = False
                cur = s
                for a in s.ancestors():
                    if a.k == 'IfStmt' and norm(a.child('cond').text()) == 'relative' and a.child('else') is not None and (a.child('else') is cur or any(x is s for x in a.child('else').walk())):
                        in_abs_branch = True
                    cur = a
                if in_abs_branch:
                    continue
                n += 1
                d = deps_closure(f, s.child('rhs'))
                ok = bool(d & {'this->point_array', 'this->last_ctrl'})
                ctx.check(ok, 'R-DEP', key + '/last_ctrl-absolute@%d' % s.id, s.loc(), 'the control point stored on the relative path is absolute (depends on %s)' % sorted(d & {'this->point_array', 'this->last_ctrl'}),
                          'with relative coordinates the remembered control point is taken from the caller\'s relative list only (depends on %s): the next smooth section or turn starts from a wrong tangent' % sorted(d))
    for name, target in DELEGATES.items():
        f = db.fn('gdstk::Curve::' + name)
        ctx.touch(f)
        n += 1
        g = f.cfg
        calls = [c for c in f.walk() if c.k == 'CXXMemberCallExpr' and (c.callee or '') == 'gdstk::Curve::' + target]
        ok = len(calls) >= 1 and any(g.postdominates(g.where_node(c), (g.entry, 0)) or True for c in calls)
        # the delegate call is unconditional (top-level statement)
        ok = ok and any(c.parent is f.body for c in calls)
        ctx.check(ok, 'R-MUSTWRITE', 'Curve::%s/delegates' % name, f.loc(), 'delegates unconditionally to %s, which stores last_ctrl' % target)
    for name, why in EXEMPT.items():
        ctx.ok('R-MUSTWRITE', 'Curve::%s/exempt' % name, db.fn('gdstk::Curve::' + name).loc(), 'exempt: ' + why)
    ctx.require('R-MUSTWRITE/R-DEP obligations', n, 20)


def check_clamps(ctx, db):
    n = 0
    fns = [f for f in db.functions if any(c.k == 'CallExpr' and c.callee == 'gdstk::arc_num_points' for c in f.walk())]
    for f in fns:
        g = f.cfg
        defs = []
        for x in f.walk():
            tgt = None
            rhs = None
            if x.k == 'VarDecl' and x.child('init') is not None:
                tgt, rhs = 'v%d:%s' % (x.d, x.n), x.child('init')
            elif is_assign(x) and x.op == '=':
                tgt, rhs = lvalue_key(x.child('lhs')), x.child('rhs')
            if tgt and rhs is not None and any(c.k == 'CallExpr' and c.callee == 'gdstk::arc_num_points' for c in rhs.walk()):
                defs.append((tgt, x))
        for key in sorted({k for k, _ in defs}):
            uses = []
            for d in f.walk():
                if d.k == 'BinaryOperator' and d.op == '/':
                    r = _strip_casts(d.child('rhs'))
                    names = {lvalue_key(y) for y in r.walk() if y.k == 'DeclRefExpr'}
                    if key in names:
                        uses.append((d, r))
            for d, r in uses:
                n += 1
                ctx.touch(f)
                minus_one = r.k == 'BinaryOperator' and r.op == '-'
                D = None
                for k2, x in defs:
                    if k2 == key and x.pos < d.pos:
                        D = x if D is None or x.pos > D.pos else D
                clamp = None
                # the definition itself may clamp: `n = std::max(K, 1 + arc_num_points(...))` / `max<uint64_t>(...)` / a conditional expression
                if D is not None:
                    rhs_ = D.child('init') if D.k == 'VarDecl' else D.child('rhs')
                    r0 = _strip_casts(rhs_)
                    while r0 is not None and r0.k in ('MaterializeTemporaryExpr', 'ExprWithCleanups', 'ParenExpr') and r0.c:
                        r0 = _strip_casts(r0.c[0])
                    if r0 is not None and r0.k == 'CallExpr' and (r0.callee or '').split('<')[0] in ('std::max', 'fmax') and len(r0.args) == 2:
                        ks = [_strip_casts(a_).cv for a_ in r0.args if _strip_casts(a_).cv is not None and _strip_casts(a_).k != 'DeclRefExpr']
                        if ks:
                            clamp = max(ks)
                for i in f.walk():
                    if i.k == 'IfStmt' and D is not None and D.pos < i.pos < d.pos:
                        c = _strip_casts(i.child('cond'))
                        if c.k == 'BinaryOperator' and c.op == '<' and lvalue_key(c.child('lhs')) == key and c.child('rhs').cv is not None:
                            th = i.child('then')
                            a = th if is_assign(th) else next((x for x in th.walk() if is_assign(x)), None)
                            if a is not None and lvalue_key(a.child('lhs')) == key and a.child('rhs').cv == c.child('rhs').cv and g.node_dominates(c, d):
                                clamp = c.child('rhs').cv
                guarded = any(a.k == 'IfStmt' and norm(a.child('cond').text()) == '(%s == 1)' % pretty_key(key) and a.child('else') is not None and any(x is d for x in a.child('else').walk()) for a in d.ancestors())
                need = 2 if minus_one else 1
                ok = (clamp is not None and clamp >= need) or (minus_one and guarded)
                ctx.check(ok, 'R-CLAMP', '%s/%s@%d' % (f.qn.replace('gdstk::', ''), pretty_key(key), d.id), d.loc(),
                          'division by `%s` is dominated by %s' % (norm(r.text()), ('a clamp to %d' % clamp) if clamp is not None else 'the n == 1 guard'),
                          'vertex count from arc_num_points is used as divisor `%s` without a dominating clamp to >= %d (a 1-point arc divides by zero and emits non-finite vertices)' % (norm(r.text()), need))
    ctx.require('R-CLAMP divisor uses', n, 6)


def sampler_model(db, name, args, tol, start, curve):
    """one of the four adaptive samplers of Curve interpreted (sa/minieval, IEEE doubles; libm and the allocation of scratch control
    points answered by the harness) on a curve object that already holds `start`. `curve(t)` is the exact curve (a Python function);
    every parameter value the sampler evaluates is recorded. Returns (vertices appended, recorded parameters)."""
    import math
    from .. import minieval as M
    f = db.fn('gdstk::Curve::' + name)
    ts = []
    ref = [None]

    def arr(lst):
        return M.Obj(items=M.Ptr(lst, 0) if lst else 0, count=len(lst), capacity=len(lst))

    def extra(callee, args_, node):
        c = callee or ''
        short = c.split('::')[-1]
        if short in ('acos', 'sqrt', 'fabs', 'cos', 'sin', 'pow') and len(c.split('::')) <= 2:
            try:
                return (getattr(math, short)(*[float(a_) for a_ in args_]),)
            except (ValueError, OverflowError):
                return (float('nan'),)
        if short in ('eval_bezier3', 'eval_bezier2', 'eval_bezier', 'eval_line'):
            ts.append(float(args_[0]))
        if short == 'allocate':
            lst = [M.Obj(x=0.0, y=0.0) for _ in range(int(args_[0]) // 16)]
            ref[0].writable.add(id(lst))
            return (M.Ptr(lst, 0),)
        if short == 'free_allocation':
            return (None,)
        if short == 'memcpy':
            d, s_, n_ = args_[0], args_[1], int(args_[2]) // 16
            for k_ in range(n_):
                d.arr[d.i + k_] = M.Obj(s_.arr[s_.i + k_])
            return (d,)
        return None
    mi = M.Mini(db, hook=M.array_hook(ref, extra), budget=4000000, c_ints=True)
    mi.obj_store = True
    mi.ieee = True
    ref[0] = mi
    this = M.Obj(point_array=arr([M.Obj(x=float(start[0]), y=float(start[1]))]), tolerance=float(tol), last_ctrl=M.Obj(x=0.0, y=0.0))
    env = {'this': this}
    conv = []
    for a_ in args:
        if isinstance(a_, tuple):
            conv.append(M.Obj(x=float(a_[0]), y=float(a_[1])))
        elif isinstance(a_, list):
            conv.append(arr([M.Obj(x=float(x), y=float(y)) for x, y in a_]))
        elif callable(a_):
            def fn_(u, data, a_=a_):
                ts.append(float(u))
                x, y = a_(float(u))
                return M.Obj(x=x, y=y)
            conv.append(fn_)
        else:
            conv.append(a_)
    for p_, a_ in zip(f.params, conv):
        env[p_['n']] = a_
    try:
        mi.run(f.body, env)
    except M.Return:
        pass
    pa = this['point_array']
    return [(o['x'], o['y']) for o in pa['items'].arr[pa['items'].i:pa['items'].i + pa['count']]][1:], ts


def check_samplers(ctx, db):
    """R-MODEL.sampler: append_cubic, append_quad, append_bezier and parametric interpreted on sample sections (an S-shaped and a
    nearly straight cubic, a quadratic, a quartic Bezier, a parabola and a sine arc given as functions, absolute and relative) with tolerances 0.01
    and 0.001. Each appended vertex is identified with the parameter value it was evaluated at (the sampler's own evaluations are
    recorded). Required: no parameter beyond 1 is ever evaluated; the parameters of the vertices increase strictly; the last vertex is the end point
    of the section exactly; every vertex is on the exact curve; between two consecutive vertices the curve stays within three
    tolerances of the chord. Sample sections: the rule decides these and, through them, the end clamp and the step rule's
    error test - not every control polygon (the NaN step of degenerate sections is outside)."""
    import math
    from ..minieval import OutOfBounds

    def bez(ctrl):
        def f_(t):
            p = [tuple(map(float, c)) for c in ctrl]
            while len(p) > 1:
                p = [((1 - t) * a[0] + t * b[0], (1 - t) * a[1] + t * b[1]) for a, b in zip(p, p[1:])]
            return p[0]
        return f_
    para = lambda u: (4.0 * u, 8.0 * u * (1.0 - u))
    cases = [('append_cubic', 'S-shaped cubic', [(0, 0), (1, 2), (3, -2), (4, 0)], None), ('append_cubic', 'nearly straight cubic', [(0, 0), (1, 0.01), (3, -0.01), (4, 0)], None),
             ('append_quad', 'quadratic', [(0, 0), (2, 3), (4, 0)], None), ('append_bezier', 'quartic Bezier', [(0, 0), (1, 2), (2, -1), (3, 2), (4, 0)], None),
             ('parametric', 'parabola, absolute', None, 0), ('parametric', 'parabola, relative', None, 1), ('parametric', 'sine, absolute', None, 2)]
    n = 0
    for name, label, ctrl, rel in cases:
        f = db.fn('gdstk::Curve::' + name)
        ctx.touch(f)
        for tol in (0.01, 0.001):
            n += 1
            why = None
            if ctrl is not None:
                start, curve = ctrl[0], bez(ctrl)
                args = [ctrl] if name == 'append_bezier' else list(ctrl)
            else:
                if rel == 2:
                    sine = lambda u: (4.0 * u, math.sin(5.0 * u))
                    start, curve, args = (0.0, 0.0), sine, [sine, 0, 0]
                else:
                    start = (0.0, 0.0) if not rel else (5.0, -3.0)
                    curve = (lambda u: para(u)) if not rel else (lambda u: (5.0 + para(u)[0], -3.0 + para(u)[1]))
                    args = [para, 0, rel]
            try:
                verts, ts = sampler_model(db, name, args, tol, start, curve)
            except OutOfBounds as ex:
                verts, ts, why = [], [], str(ex)
            if why is None and ts and max(ts) > 1.0:
                why = 'the section is evaluated at the parameter %r, beyond its end at 1 (the step is not clamped to the end of the section)' % max(ts)
            if why is None:
                cand = sorted(set(ts))
                params = []
                for v in verts:
                    best = min(cand, key=lambda t_: math.hypot(curve(t_)[0] - v[0], curve(t_)[1] - v[1])) if cand else None
                    if best is None or not (math.hypot(curve(best)[0] - v[0], curve(best)[1] - v[1]) <= 1e-9):
                        why = 'vertex (%r, %r) is not a point of the curve at any parameter the sampler evaluated' % v
                        break
                    params.append(best)
                end = curve(1.0)
                if why is None and (not verts or verts[-1] != end):
                    why = 'the last vertex is %s, the section ends at %s' % (verts[-1] if verts else None, end)
                elif why is None and (any(b_ <= a_ for a_, b_ in zip(params, params[1:])) or params[-1] > 1.0 or params[0] <= 0.0):
                    why = 'the parameters of the vertices do not increase strictly within (0, 1]: %s' % ['%.4f' % t_ for t_ in params[:8]]
                elif why is None:
                    prev_t, prev_v = 0.0, curve(0.0)
                    for t_, v in zip(params, verts):
                        for k_ in range(1, 8):
                            q = curve(prev_t + (t_ - prev_t) * k_ / 8.0)
                            dx, dy = v[0] - prev_v[0], v[1] - prev_v[1]
                            l2 = dx * dx + dy * dy
                            u_ = 0.0 if l2 == 0 else max(0.0, min(1.0, ((q[0] - prev_v[0]) * dx + (q[1] - prev_v[1]) * dy) / l2))
                            d_ = math.hypot(q[0] - prev_v[0] - u_ * dx, q[1] - prev_v[1] - u_ * dy)
                            if d_ > 3 * tol:
                                why = 'between the parameters %.4f and %.4f the curve is %.4g from the polyline, tolerance %g' % (prev_t, t_, d_, tol)
                                break
                        if why:
                            break
                        prev_t, prev_v = t_, v
            ctx.check(why is None, 'R-MODEL.sampler', 'Curve::%s/%s,tol=%g' % (name, label, tol), f.loc(),
                      'vertices on the curve at strictly increasing parameters, the last one exactly the end point, the curve within three tolerances of every chord', why)
    ctx.explored['valuations'] += n
    ctx.require('R-MODEL.sampler sections interpreted', n, 14)


def clamp_of(i):
    """`if (v > B) { v = B; ... }` / `if (v < B) ...` -> (variable text, bound text, 'upper'|'lower')"""
    c = _strip_casts(i.child('cond'))
    if c is None or c.k != 'BinaryOperator' or c.op not in ('>', '<', '>=', '<='):
        return None
    l, r = _strip_casts(c.child('lhs')), _strip_casts(c.child('rhs'))
    th = i.child('then')
    if th is None:
        return None
    asg = [x for x in ([th] if is_assign(th) else (th.c if th.k == 'CompoundStmt' else [])) if x is not None and is_assign(x) and x.op == '=']
    for a in asg:
        al, ar = _strip_casts(a.child('lhs')), _strip_casts(a.child('rhs'))
        for v, b in ((l, r), (r, l)):
            if v.k in ('DeclRefExpr', 'MemberExpr') and v.text() == al.text() and b.text() == ar.text():
                up = (c.op in ('>', '>=')) == (v is l)
                return (norm(v.text()), norm(b.text()), 'upper' if up else 'lower')
    return None


def check_clamp_chains(ctx, fns, rule='R-CLAMP.chain'):
    """Two bounds of the same kind on the same variable must both be applied: the second clamp may
    not sit in the `else` of the first (when the first fires, the second bound is skipped)."""
    n = 0
    for f in fns:
        for i in f.walk():
            if i.k != 'IfStmt':
                continue
            cl = clamp_of(i)
            if cl is None:
                continue
            n += 1
            ctx.touch(f)
            par = i.parent
            pc = clamp_of(par) if par is not None and par.k == 'IfStmt' and par.child('else') is i else None
            bad = pc is not None and pc[0] == cl[0] and pc[2] == cl[2] and pc[1] != cl[1]
            ctx.check(not bad, rule, '%s/%s<=%s@%s' % (f.qn.replace('gdstk::', ''), cl[0], cl[1][:30], i.loc()), i.loc(), '%s bound `%s` on `%s` is applied independently of the other bounds' % (cl[2], cl[1], cl[0]),
                      'the %s bound `%s` on `%s` is only applied when the bound `%s` did not fire: a value exceeding both keeps the larger one' % (cl[2], cl[1], cl[0], pc[1] if pc else ''))
    return n


def check_dimensions(ctx, db):
    """powers-of-length analysis of the flatness tests: the sampled deviation (a squared distance) is only ever
    compared with the squared tolerance; no absolute, unit-dependent threshold decides whether a chord is accepted"""
    from .. import dims
    seeds = {'tolerance': 1, 'tolerance_sq': 2, 'p': 1, 'p0': 1, 'p1': 1, 'p2': 1, 'p3': 1, 'ctrl': 1, 'point_array': 1, 'points': 1, 'radius': 1}
    n = 0
    for qn, mins in (('gdstk::distance_to_line_sq', 1), ('gdstk::distance_to_line', 1), ('gdstk::Curve::append_cubic', 3), ('gdstk::Curve::append_quad', 3), ('gdstk::Curve::append_bezier', 5), ('gdstk::Curve::parametric', 2), ('gdstk::arc_num_points', 1)):
        f = db.fn(qn)
        ctx.touch(f)
        n += dims.check(ctx, f, seeds, min_sites=mins)
    seeds2 = {'tolerance': 1, 'radius': 1, 'radii': 1, 'center': 1, 'radius_x': 1, 'radius_y': 1, 'inner_radius_x': 1, 'inner_radius_y': 1, 'inner_radius': 1, 'point_array': 1, 'corner1': 1, 'corner2': 1,
              'full_size': 1, 'arm_width': 1, 'side_length': 1, 'straight_length': 1, 'size': 1, 'position': 1, 'len0': 1, 'len1': 1, 'max_len': 1, 'p0': 1, 'p1': 1, 'p2': 1, 'v0': 1, 'v1': 1}
    for qn, mins in (('gdstk::Polygon::fillet', 25), ('gdstk::ellipse', 35), ('gdstk::racetrack', 18), ('gdstk::cross', 25), ('gdstk::Curve::arc', 12)):
        f = db.fn(qn)
        ctx.touch(f)
        n += dims.check(ctx, f, seeds2, min_sites=mins)
    ctx.require('R-DIM resolved sites', n, 140)
    # floored modulo: fmod keeps the sign of its numerator; the only caller corrects it
    calls = [(f, c) for f in db.functions if f.body is not None and f.relfile().startswith('src/') for c in f.walk() if c.k == 'CallExpr' and c.callee in ('fmod', 'std::fmod', 'fmodf', 'remainder')]
    bad = []
    for f, c in calls:
        v = c.parent
        while v is not None and v.k not in ('VarDecl', 'ReturnStmt', 'CompoundStmt'):
            v = v.parent
        ok = False
        if v is not None and v.k == 'VarDecl':
            m = v.n
            ret = next((r for r in f.walk() if r.k == 'ReturnStmt' and r.child('value') is not None), None)
            t = norm(ret.child('value').text()) if ret is not None else ''
            ok = re.fullmatch(r'\(\(%s < 0\) \? \(%s \+ (\w+)\) : %s\)' % (m, m, m), t) is not None and norm(c.args[1].text()) == re.fullmatch(r'\(\(%s < 0\) \? \(%s \+ (\w+)\) : %s\)' % (m, m, m), t).group(1)
        if not ok and _strip_casts(c.args[0]).k == 'CallExpr' and (_strip_casts(c.args[0]).callee or '') in ('fabs', 'std::fabs', 'abs'):
            ok = True
        if not ok:
            bad.append('%s in %s' % (c.loc(), f.qn))
    ctx.check(len(calls) >= 1 and not bad, 'R-IDIOM', 'angle-reduction/floored-modulo', calls[0][1].loc() if calls else '', 'every fmod result is brought into [0, y) (m < 0 ? m + y : m) before it is used as a phase: %d call site(s)' % len(calls),
              'fmod is used without the sign correction at %s: for negative angles the reduced angle is one period off' % '; '.join(bad))
    e = db.fn('gdstk::elliptical_angle_transform')
    t = norm(clone.canon(e.body, e))
    ctx.check('modulo((p0 + 3.14159' in t and 'fmod' not in t, 'R-IDIOM', 'elliptical_angle_transform/uses-floored-modulo', e.loc(), 'the whole-turn offset of the elliptical angle uses the floored modulo')


def fillet_model(db, pts, radii, tol):
    """Polygon::fillet interpreted (sa/minieval, IEEE doubles; the libm functions answered by Python's math) on one polygon.
    Returns the output vertices."""
    import math
    from .. import minieval as M
    f = db.fn('gdstk::Polygon::fillet')

    def arr(lst):
        return M.Obj(items=M.Ptr(lst, 0) if lst else 0, count=len(lst), capacity=len(lst))
    this = M.Obj(point_array=arr([M.Obj(x=float(x), y=float(y)) for x, y in pts]))
    ref = [None]

    def extra(callee, args, node):
        c = callee or ''
        short = c.split('::')[-1]
        if short in ('acos', 'tan', 'cos', 'sin', 'sqrt', 'fabs', 'atan2') and len(c.split('::')) <= 2:
            try:
                return (getattr(math, short)(*[float(a) for a in args]),)
            except ValueError:
                return (float('nan'),)
        if short == '__assert_fail':
            raise M.OutOfBounds('assertion fails at %s' % node.loc())
        return None
    mi = M.Mini(db, hook=M.array_hook(ref, extra), budget=600000, c_ints=True)
    mi.obj_store = True
    mi.ieee = True
    ref[0] = mi
    env = {'this': this, f.params[0]['n']: arr([float(r) for r in radii]), f.params[1]['n']: float(tol)}
    try:
        mi.run(f.body, env)
    except M.Return:
        pass
    pa = this['point_array']
    return [(p['x'], p['y']) for p in (pa['items'].arr[pa['items'].i:pa['items'].i + pa['count']] if pa['count'] else [])]


def check_fillet_model(ctx, db, tier='quick'):
    """R-MODEL.fillet: Polygon::fillet interpreted on small polygons (square, L shape with a reflex corner, triangle; both orientations;
    rotated so that the arc angles fall on either side of the +-pi cut of atan2), with one radius, a radius per vertex and a radius too
    large for the edges. The exact filleted outline is computed independently: at a corner of turning angle theta the arc of radius r
    (reduced so that its tangent length fits half of either adjacent edge less the tolerance) is tangent to both edges. Required of the
    vertices the source produces for every corner, in order: the first lies on the incoming edge at the tangent point, the last on the
    outgoing edge, all are finite and at distance r from the arc's centre, they advance monotonically the SHORT way round (sweep =
    theta <= pi), and no chord strays from the arc by more than twice the tolerance."""
    import math
    f = db.fn('gdstk::Polygon::fillet')
    ctx.touch(f)
    shapes = [('square', [(0, 0), (4, 0), (4, 4), (0, 4)]), ('L', [(0, 0), (6, 0), (6, 3), (3, 3), (3, 6), (0, 6)]), ('triangle', [(0, 0), (7, 1), (2, 6)])]
    rots = (0.0, 0.4, 1.3, 2.6, -2.0) if tier == 'thorough' else (0.0, 1.3, -2.0)
    n = 0
    for name, base in shapes:
        for orient in (1, -1):
            for rot in rots:
                for radii, tol in (([0.5], 0.01), ([0.3, 0.6, 0.45], 0.002), ([5.0], 0.01)):
                    if tier != 'thorough' and (len(radii) == 3) != (rot == 1.3):
                        continue
                    ca, sa_ = math.cos(rot), math.sin(rot)
                    pts = [(x * ca - y * sa_, x * sa_ + y * ca) for x, y in (base if orient == 1 else base[::-1])]
                    n += 1
                    key = 'fillet/%s,%s,rot=%g,radii=%s,tol=%g' % (name, 'ccw' if orient == 1 else 'cw', rot, radii, tol)
                    why = None
                    try:
                        out = fillet_model(db, pts, radii, tol)
                    except Exception as ex:
                        from ..minieval import OutOfBounds
                        if not isinstance(ex, OutOfBounds):
                            raise
                        out, why = [], str(ex)
                    if why is None and any(not (math.isfinite(x) and math.isfinite(y)) for x, y in out):
                        why = 'a vertex is not finite'
                    pos = 0
                    N = len(pts)
                    for j in range(N if why is None else 0):
                        p0, p1, p2 = pts[(j - 1) % N], pts[j], pts[(j + 1) % N]
                        v0 = (p1[0] - p0[0], p1[1] - p0[1])
                        v1 = (p2[0] - p1[0], p2[1] - p1[1])
                        l0, l1 = math.hypot(*v0), math.hypot(*v1)
                        v0, v1 = (v0[0] / l0, v0[1] / l0), (v1[0] / l1, v1[1] / l1)
                        theta = math.acos(max(-1.0, min(1.0, v0[0] * v1[0] + v0[1] * v1[1])))
                        r = radii[j % len(radii)]
                        t = min(r * math.tan(theta / 2), 0.5 * (l0 - tol), 0.5 * (l1 - tol))
                        r = t / math.tan(theta / 2)
                        T0 = (p1[0] - v0[0] * t, p1[1] - v0[1] * t)
                        T1 = (p1[0] + v1[0] * t, p1[1] + v1[1] * t)
                        left = v0[0] * v1[1] - v0[1] * v1[0] > 0
                        nrm = (-v0[1], v0[0]) if left else (v0[1], -v0[0])
                        C = (T0[0] + nrm[0] * r, T0[1] + nrm[1] * r)
                        grp = []
                        while pos < len(out) and abs(math.hypot(out[pos][0] - C[0], out[pos][1] - C[1]) - r) < 1e-7 and (len(grp) < 1 or math.hypot(out[pos][0] - T0[0], out[pos][1] - T0[1]) > 1e-9):
                            grp.append(out[pos])
                            pos += 1
                        if len(grp) < 2:
                            why = 'corner %d (%.3f, %.3f): %d vertices on the arc of radius %.4g about (%.3f, %.3f); next vertex %s' % (j, p1[0], p1[1], len(grp), r, C[0], C[1], out[pos] if pos < len(out) else None)
                            break
                        if math.hypot(grp[0][0] - T0[0], grp[0][1] - T0[1]) > 1e-7 or math.hypot(grp[-1][0] - T1[0], grp[-1][1] - T1[1]) > 1e-7:
                            why = 'corner %d: the arc runs from (%.4f, %.4f) to (%.4f, %.4f), the tangent points are (%.4f, %.4f) and (%.4f, %.4f)' % ((j,) + grp[0] + grp[-1] + T0 + T1)
                            break
                        angs = [math.atan2(q[1] - C[1], q[0] - C[0]) for q in grp]
                        steps = [((b - a + math.pi) % (2 * math.pi)) - math.pi for a, b in zip(angs, angs[1:])]
                        sweep = sum(steps)
                        if any((s_ > 1e-9) != left and abs(s_) > 1e-9 for s_ in steps) or abs(abs(sweep) - theta) > 1e-6:
                            why = 'corner %d: the arc sweeps %.4f rad in steps %s; the corner turns by %.4f rad %s' % (j, sweep, ['%.3f' % s_ for s_ in steps[:4]], theta, 'left' if left else 'right')
                            break
                        sag = max(r * (1 - math.cos(abs(s_) / 2)) for s_ in steps)
                        if sag > 2 * tol:
                            why = 'corner %d: a chord strays %.4g from the arc, tolerance %.4g' % (j, sag, tol)
                            break
                    if why is None and pos != len(out):
                        why = '%d vertices beyond the last corner arc' % (len(out) - pos)
                    ctx.check(why is None, 'R-MODEL.fillet', key, f.loc(), 'every corner arc is tangent to both edges, of the (clamped) radius, the short way round and within tolerance', why)
    ctx.explored['valuations'] += n
    ctx.require('R-MODEL.fillet polygons interpreted', n, 18 if tier != 'thorough' else 60)


def check_builders_model(ctx, db):
    """Curve::cubic, cubic_smooth, quadratic and quadratic_smooth (list overloads) interpreted (sa/minieval) on a curve ending at
    (5, 7) with remembered control point (4, 9) and a list of TWO sections, relative and absolute. append_cubic / append_quad are
    answered by the harness, which records the control points handed over and moves the curve's end point. Required: the documented
    control points - every coordinate of one relative call offset by the end point the curve had when the call was made; smooth
    sections starting with the reflection of the previous control point - each section starting where the previous one ended, and the
    control point remembered for the next smooth section. Two sections show what one cannot: which reference the second uses."""
    from .. import minieval as M
    E0, K0 = (5, 7), (4, 9)
    pts_all = [(1, 2), (3, -1), (6, 4), (-2, 5), (7, 7), (2, -3)]
    n = 0
    for qn, callee, per, smooth in (('gdstk::Curve::cubic', 'append_cubic', 3, False), ('gdstk::Curve::cubic_smooth', 'append_cubic', 2, True),
                                    ('gdstk::Curve::quadratic', 'append_quad', 2, False), ('gdstk::Curve::quadratic_smooth', 'append_quad', 1, True)):
        fs = [g for g in db.fn(qn, all=True) if 'Array' in g.sig]
        if len(fs) != 1:
            raise AnalysisBroken('%s(Array) overload not found' % qn)
        f = fs[0]
        ctx.touch(f)
        P = pts_all[:2 * per]
        for relative in (1, 0):
            n += 1
            end = [M.Obj(x=E0[0], y=E0[1])]
            this = M.Obj(point_array=M.Obj(items=M.Ptr(end, 0), count=1, capacity=1), last_ctrl=M.Obj(x=K0[0], y=K0[1]))
            calls = []

            def hook(callee_, args, node):
                short = (callee_ or '').split('::')[-1]
                if short in ('append_cubic', 'append_quad'):
                    calls.append(tuple((a['x'], a['y']) for a in args))
                    lst = this['point_array']['items'].arr
                    lst.append(M.Obj(args[-1]))
                    this['point_array']['count'] = len(lst)
                    return (None,)
                return None
            mi = M.Mini(db, hook=hook, budget=20000)
            mi.obj_store = True
            plist = [M.Obj(x=a, y=b) for a, b in P]
            env = {'this': this, f.params[0]['n']: M.Obj(items=M.Ptr(plist, 0), count=len(plist), capacity=len(plist)), f.params[1]['n']: relative}
            try:
                mi.run(f.body, env)
            except M.Return:
                pass
            ref = E0 if relative else (0, 0)
            A = lambda p_: (ref[0] + p_[0], ref[1] + p_[1])
            want = []
            start, ctrl = E0, K0
            for k in range(2):
                ops = [A(p_) for p_ in P[per * k:per * (k + 1)]]
                if smooth:
                    refl = (2 * start[0] - ctrl[0], 2 * start[1] - ctrl[1])
                    want.append((start, refl) + tuple(ops))
                    ctrl = ops[0] if per == 2 else refl
                else:
                    want.append((start,) + tuple(ops))
                    ctrl = ops[-2]
                start = ops[-1]
            got_ctrl = (this['last_ctrl']['x'], this['last_ctrl']['y'])
            ok = calls == want and got_ctrl == ctrl
            ctx.check(ok, 'R-ALGEBRA', '%s/two-sections|%s' % (qn.replace('gdstk::', ''), 'relative' if relative else 'absolute'), f.loc(),
                      'two sections in one %s call get the documented control points, chained end to start, and the control point for a following smooth section is remembered' % ('relative' if relative else 'absolute'),
                      'from end point %s, remembered control point %s and the list %s (%s): %s receives %s and last_ctrl ends as %s; documented: %s and %s' % (E0, K0, P, 'relative' if relative else 'absolute', callee, calls, got_ctrl, want, ctrl))
    ctx.explored['valuations'] += n
    ctx.require('R-ALGEBRA builder cases interpreted', n, 8)


def check_section_algebra(ctx, db):
    """One generic iteration of each polynomial section builder, folded into vectors over symbolic atoms: the control
    points handed to append_cubic / append_quad and the state carried to the next iteration are exactly the
    documented ones (relative operands are offsets from the section's starting end point R; a smooth section starts
    with the reflection 2L - K of the previous control point K about the current end point L)."""
    from .. import symdiff as S

    class CA(S.Algebra):
        def __init__(self, *a):
            S.Algebra.__init__(self, *a)
            self.seq = 0
            self.seen = {}

        def value(self, e, env):
            e0 = _strip_casts(e)
            # an operand of the section: any access to the caller's point array whose address is affine in the section loop
            # (`points[i + 1]`, `*point++`, `point[1]` with `point += n` in the increment, ...): operand number = offset within
            # the iteration (sa/loops.py), so the spelling of the cursor is irrelevant
            lp = getattr(self, 'lp', None)
            if lp is not None and e0 is not None and (e0.k == 'ArraySubscriptExpr' or (e0.k == 'UnaryOperator' and e0.op == '*') or (e0.k == 'CXXOperatorCallExpr' and e0.op == '[]')):
                try:
                    lin = lp.addr(e0)
                except Exception:
                    lin = None
                if lin is not None:
                    bases = [k_ for k_ in lin if isinstance(k_, str) and k_.endswith('.items')]
                    rest = {k_: v for k_, v in lin.items() if k_ not in bases and k_ not in (1, '@k')}
                    if len(bases) == 1 and not rest and bases[0].endswith(':points.items'):
                        k_ = lin.get(1, 0)
                        return self.vec(S.atom('P%d.x' % k_), S.atom('P%d.y' % k_))
            if e0 is not None and e0.k == 'UnaryOperator' and e0.op == '*':
                sub = _strip_casts(e0.child('sub'))
                if sub.k == 'UnaryOperator' and sub.op == 'post++' and _strip_casts(sub.child('sub')).k == 'DeclRefExpr' and _strip_casts(sub.child('sub')).n == 'point':
                    if e0.id not in self.seen:      # one operand per source occurrence, however often it is evaluated
                        self.seen[e0.id] = self.seq
                        self.seq += 1
                    k_ = self.seen[e0.id]
                    return self.vec(S.atom('Q%d.x' % k_), S.atom('Q%d.y' % k_))
            if e0 is not None and e0.k == 'CXXOperatorCallExpr' and e0.op == '[]' and len(e0.args) == 2 and _strip_casts(e0.args[0]).k == 'DeclRefExpr':
                base = _strip_casts(e0.args[0]).n
                it = norm(e0.args[1].text())
                m = re.fullmatch(r'\(i \+ (\d+)\)|i', it)
                if base == 'points' and m:
                    k_ = int(m.group(1) or 0)
                    return self.vec(S.atom('P%d.x' % k_), S.atom('P%d.y' % k_))
                m2 = re.fullmatch(r'\(points\.count - (\d+)\)', it)
                if base == 'points' and m2:
                    return self.vec(S.atom('Pend-%s.x' % m2.group(1)), S.atom('Pend-%s.y' % m2.group(1)))
                if base == 'point_array':
                    return self.vec(S.atom('E.x'), S.atom('E.y'))
            return S.Algebra.value(self, e, env)

    def vsum(alg, *vs):
        out = vs[0]
        for v in vs[1:]:
            out = alg.vadd(out, v)
        return out
    n = 0
    # (function, callee, expected control points, expected carried (last_point, last_ctrl) as functions of the atoms)
    for qn, callee, npts, smooth in (('gdstk::Curve::cubic', 'append_cubic', 3, False), ('gdstk::Curve::cubic_smooth', 'append_cubic', 2, True),
                                     ('gdstk::Curve::quadratic', 'append_quad', 2, False), ('gdstk::Curve::quadratic_smooth', 'append_quad', 1, True)):
        fs = [g for g in db.fn(qn, all=True) if 'Array' in g.sig]
        if len(fs) != 1:
            raise AnalysisBroken('%s(Array) overload not found' % qn)
        f = fs[0]
        ctx.touch(f)
        rel_if = next((i for i in f.body.c if i is not None and i.k == 'IfStmt' and norm(i.child('cond').text()) == 'relative'), None)
        if rel_if is None:
            # written without a relative/absolute split (one loop with a conditional reference): nothing is claimed symbolically;
            # the control points are decided by interpretation (check_builders_model)
            ctx.ok('R-ALGEBRA', '%s/symbolic' % qn.replace('gdstk::', ''), f.loc(), 'no relative/absolute split to execute symbolically: decided by the two-section interpretation')
            n += 2
            continue
        for relative, br in ((True, rel_if.child('then')), (False, rel_if.child('else'))):
            alg = CA(db, None)
            L, K, R = alg.vec(S.atom('L.x'), S.atom('L.y')), alg.vec(S.atom('K.x'), S.atom('K.y')), alg.vec(S.atom('R.x'), S.atom('R.y'))
            env = {'last_point': L, 'last_ctrl': K, 'ref': R}
            loop = next((l for l in br.walk() if l.k == 'ForStmt'), None)
            if loop is None:
                raise AnalysisBroken('%s: section loop not found' % qn)
            calls = []
            from .. import loops as LP_
            alg.lp = LP_.Loop(f, loop)
            try:
                for s_ in loop.child('body').stmts():
                    if s_.k == 'DeclStmt':
                        for v in s_.c:
                            if v is not None and v.k == 'VarDecl' and v.child('init') is not None:
                                env[v.n] = alg.value(v.child('init'), env)
                    elif is_assign(s_) and s_.op == '=':
                        l = _strip_casts(s_.args[0] if s_.k == 'CXXOperatorCallExpr' else s_.child('lhs'))
                        env[l.n] = alg.value(s_.args[1] if s_.k == 'CXXOperatorCallExpr' else s_.child('rhs'), env)
                    elif s_.k == 'CXXMemberCallExpr' and (s_.callee or '').endswith('::' + callee):
                        calls.append([alg.value(a, env) for a in s_.args])
                    else:
                        raise S.Unsupported('statement %s' % s_.k)
            except S.Unsupported as e:
                raise AnalysisBroken('%s is outside the algebra: %s' % (qn, e))
            base = R if relative else alg.vec(S.P(0), S.P(0))
            if smooth:
                ops = [alg.vec(S.atom('P%d.x' % k), S.atom('P%d.y' % k)) for k in range(npts)]
                refl = alg.vadd(alg.vmul(L, S.P(2)), K, -1)
                want = [L, refl] + [alg.vadd(base, o) for o in ops]
                want_state = (alg.vadd(base, ops[-1]), alg.vadd(base, ops[0]) if npts == 2 else refl)
            else:
                ops = [alg.vec(S.atom('P%d.x' % k), S.atom('P%d.y' % k)) for k in range(npts)]
                want = [L] + [alg.vadd(base, o) for o in ops]
                want_state = (alg.vadd(base, ops[-1]), None)
            n += 1
            ok = len(calls) == 1 and len(calls[0]) == len(want) and all(alg.equal(a, b) for a, b in zip(calls[0], want))
            ok_state = alg.equal(env['last_point'], want_state[0]) and (want_state[1] is None or alg.equal(env['last_ctrl'], want_state[1]))
            ctx.check(ok and ok_state, 'R-ALGEBRA', '%s/%s' % (qn.replace('gdstk::', ''), 'relative' if relative else 'absolute'), loop.loc(),
                      'the section runs from the current end point through %s%s; the next section starts at its end point%s' % ('the reflected control point and ' if smooth else '', 'the operands offset by the starting end point' if relative else 'the operands', ' with the new control point remembered' if smooth else ''),
                      'control points handed to %s: %s (expected %s); carried end point %s, control point %s' % (callee, [alg.render(a) for a in (calls[0] if calls else [])], [alg.render(b) for b in want], alg.render(env['last_point']), alg.render(env['last_ctrl'])))
            if not smooth:
                # the control point remembered for a following smooth section is the last one of the list, in absolute coordinates
                st = [x for x in br.walk() if is_assign(x) and norm((x.args[0] if x.k == 'CXXOperatorCallExpr' else x.child('lhs')).text()).endswith('last_ctrl') and not any(a is loop for a in x.ancestors())]
                okc = len(st) == 1
                if okc:
                    v = alg.value(st[0].args[1] if st[0].k == 'CXXOperatorCallExpr' else st[0].child('rhs'), env)
                    okc = alg.equal(v, alg.vadd(base, alg.vec(S.atom('Pend-2.x'), S.atom('Pend-2.y'))))
                n += 1
                ctx.check(okc, 'R-ALGEBRA', '%s/%s/last_ctrl' % (qn.replace('gdstk::', ''), 'relative' if relative else 'absolute'), br.loc(), 'the remembered control point is the second-to-last operand%s' % (' plus the starting end point' if relative else ''))
    ctx.require('R-ALGEBRA section builders', n, 12)


def _ienv(stmts, env):
    """extend env with the integer locals declared (with evaluable initialisers) in the statement list"""
    from .C19 import ieval
    for s in stmts:
        for v in ([s] if s.k == 'VarDecl' else [x for x in s.c if x is not None and x.k == 'VarDecl'] if s.k == 'DeclStmt' else []):
            if v.child('init') is None or 'double' in (v.t or '') or 'Vec2' in (v.t or '') or '*' in (v.t or ''):
                continue
            try:
                env[v.n] = ieval(v.child('init'), env)
            except (KeyError, AnalysisBroken, OverflowError):
                pass
    return env


def check_hobby_indices(ctx, db):
    """The Hobby solver treats a closed curve by index arithmetic. Two rules, both by exhaustive evaluation of the
    index expressions for every count 2..7 (and every rotation):
    R-INDEX.cyclic   - every wrap-around index (conditional initialiser) in a loop over `i < count` is a cyclic shift
                       i -> (i + d) mod count, in bounds for every i;
    R-INDEX.rotation - the four rotated work arrays are filled completely by their memcpy pairs with one common
                       rotation, and every control point stored back into points[3c+1] / points[3c+2] was computed from
                       the work-array vertex that is a copy of points[3c] / of the next vertex."""
    from .C19 import ieval
    f = db.fn('gdstk::hobby_interpolation')
    ctx.touch(f)
    n = 0
    # --- cyclic shifts
    for L in f.walk():
        if L.k != 'ForStmt' or L.child('cond') is None:
            continue
        c = _strip_casts(L.child('cond'))
        if not (c.k == 'BinaryOperator' and c.op == '<' and _strip_casts(c.child('rhs')).k == 'DeclRefExpr' and _strip_casts(c.child('rhs')).n == 'count'):
            continue
        iv = _strip_casts(c.child('lhs'))
        if iv.k != 'DeclRefExpr':
            continue
        body = L.child('body')
        decls = [v for st in (body.c if body is not None else []) if st is not None and st.k == 'DeclStmt' for v in st.c if v is not None and v.k == 'VarDecl' and v.child('init') is not None
                 and any(x.k == 'ConditionalOperator' for x in v.child('init').walk()) and 'int' in (v.ct or v.t or '') + (v.t or '')]
        for v in decls:
            bad = None
            for count in range(2, 8):
                shift = None
                for i in range(count):
                    env = _ienv([st for st in body.c if st is not None and st.k == 'DeclStmt' and st.pos < v.parent.pos], {'count': count, iv.n: i})
                    try:
                        val = ieval(v.child('init'), env)
                    except KeyError:
                        val = None
                    if val is None:
                        bad = 'not evaluable'
                        break
                    if not (0 <= val < count):
                        bad = 'for count = %d, %s = %d the index is %d: outside the %d vertices' % (count, iv.n, i, val, count)
                        break
                    d = (val - i) % count
                    if shift is None:
                        shift = d
                    elif d != shift:
                        bad = 'for count = %d the index is not a cyclic shift of %s (offset %d at %s = 0 but %d at %s = %d): a neighbour is skipped or used twice around the closing segment' % (count, iv.n, shift, iv.n, d, iv.n, i)
                        break
                if bad:
                    break
            if bad == 'not evaluable':
                continue
            n += 1
            ctx.check(bad is None, 'R-INDEX.cyclic', 'hobby_interpolation/%s@%s' % (v.n, v.loc()), v.loc(), 'wrap-around index `%s` is a cyclic shift of `%s` for every count 2..7' % (v.n, iv.n), bad)
    ctx.require('R-INDEX.cyclic wrap-around indices', n, 5)

    # --- rotation: every memcpy is reduced to (destination root, byte offset) <- (source root, byte offset) x bytes, where a root is a
    # pointer parameter or an allocation; pointer arithmetic is scaled by the pointee size, locals are followed to the definition that
    # precedes the use (so a copy routed through a helper's byte pointers is the same fact as one written with typed pointers)
    SIZEOF = {'Vec2': 16, 'gdstk::Vec2': 16, 'double': 8, 'bool': 1, 'uint8_t': 1, 'unsigned char': 1, 'char': 1, 'void': 1, 'uint64_t': 8}

    def pointee(t):
        t = (t or '').replace('const ', '').replace(' const', '').strip()
        if not t.endswith('*'):
            return None
        return SIZEOF.get(t[:-1].strip())

    def def_before(ref):
        """the definition of the local `ref` that precedes it (initialiser or plain assignment), by position"""
        best = None
        for x in f.walk():
            rhs = None
            if x.k == 'VarDecl' and x.d == ref.d and x.child('init') is not None:
                rhs = x.child('init')
            elif is_assign(x) and x.op == '=' and _strip_casts(x.child('lhs')).k == 'DeclRefExpr' and _strip_casts(x.child('lhs')).d == ref.d:
                rhs = x.child('rhs')
            if rhs is not None and x.pos < ref.pos and (best is None or x.pos > best[0].pos):
                best = (x, rhs)
        return best

    def ival(e, env):
        """integer value of e; integer locals are followed to their preceding definition"""
        e0 = _strip_casts(e)
        try:
            return ieval(e0, env)
        except (KeyError, AnalysisBroken):
            pass
        env2 = dict(env)
        for x in e0.walk():
            if x.k == 'DeclRefExpr' and x.dk == 'local' and x.n not in env2:
                db_ = def_before(x)
                if db_ is None:
                    raise AnalysisBroken('hobby_interpolation: `%s` has no definition before its use' % x.n)
                env2[x.n] = ival(db_[1], env)
        return ieval(e0, env2)

    def baddr(e, env, depth=0):
        """(root, byte offset) of a pointer expression"""
        e0 = _strip_casts(e)
        if depth > 12 or e0 is None:
            raise AnalysisBroken('hobby_interpolation: pointer expression too deep')
        if e0.k == 'ParenExpr':
            return baddr(e0.c[0], env, depth + 1)
        if e0.k == 'CallExpr' and (e0.callee or '').split('::')[-1] in ('allocate', 'allocate_clear', 'malloc'):
            return ('alloc', e0.id), 0
        if e0.k == 'DeclRefExpr' and e0.dk == 'param':
            return ('param', e0.n), 0
        if e0.k == 'DeclRefExpr' and e0.dk == 'local':
            db_ = def_before(e0)
            if db_ is None:
                raise AnalysisBroken('hobby_interpolation: pointer `%s` has no definition before its use' % e0.n)
            return baddr(db_[1], env, depth + 1)
        if e0.k == 'BinaryOperator' and e0.op in ('+', '-'):
            l, r = e0.child('lhs'), e0.child('rhs')
            pl, pr = pointee(_strip_casts(l).ct or _strip_casts(l).t), pointee(_strip_casts(r).ct or _strip_casts(r).t)
            if pl is not None and pr is None:
                root, off = baddr(l, env, depth + 1)
                return root, off + (1 if e0.op == '+' else -1) * ival(r, env) * pl
            if pr is not None and pl is None and e0.op == '+':
                root, off = baddr(r, env, depth + 1)
                return root, off + ival(l, env) * pr
        raise AnalysisBroken('hobby_interpolation: pointer expression `%s` not understood' % norm(e0.text())[:60])

    memcpys = [c for c in f.walk() if c.k == 'CallExpr' and c.callee == 'memcpy']
    # the work arrays: pointer locals assigned from an allocation (directly or through a helper's result) that receive copies
    work = {}
    for a in f.walk():
        if is_assign(a) and a.op == '=' and _strip_casts(a.child('lhs')).k == 'DeclRefExpr' and pointee(_strip_casts(a.child('lhs')).ct or _strip_casts(a.child('lhs')).t) is not None:
            try:
                root, off = baddr(a.child('rhs'), {'count': 3, 'rotate': 1, 'points_size': 4})
            except AnalysisBroken:
                continue
            if root[0] == 'alloc' and off == 0:
                work[root] = _strip_casts(a.child('lhs'))
    copies = {}
    for c in memcpys:
        try:
            root, _ = baddr(c.args[0], {'count': 3, 'rotate': 1, 'points_size': 4})
        except AnalysisBroken:
            continue
        if root in work:
            copies.setdefault(work[root].n, []).append(c)
    if len(copies) != 4 or any(len(v) != 2 for v in copies.values()):
        raise AnalysisBroken('hobby_interpolation: expected four rotated work arrays filled by two memcpy each, found %s' % {k: len(v) for k, v in copies.items()})
    esz = {work[r].n: pointee(work[r].ct or work[r].t) for r in work if work[r].n in copies}
    allocs = {work[r].n: next(x for x in f.walk() if x.id == r[1]) for r in work if work[r].n in copies}
    stores = [a for a in f.walk() if is_assign(a) and a.op == '=' and _strip_casts(a.child('lhs')).k == 'ArraySubscriptExpr' and _strip_casts(_strip_casts(a.child('lhs')).c[0]).n == 'points'
              and any(x.k == 'DeclRefExpr' and x.n == 'pts' for x in a.child('rhs').walk())]
    if len(stores) != 2:
        raise AnalysisBroken('hobby_interpolation: expected two control-point stores from the work array into points[], found %d' % len(stores))
    loop = next(a for a in stores[0].ancestors() if a.k == 'ForStmt')
    lv = _strip_casts(_strip_casts(loop.child('cond')).child('lhs')).n
    bad = {}
    nenv = 0
    for count in range(2, 8):
        for rotate in range(0, count):
            env0 = {'count': count, 'rotate': rotate, 'points_size': count + 1}
            maps = {}
            for dst, calls in copies.items():
                m = {}
                stride = None
                sz = esz[dst]
                for c in calls:
                    (dr, dob), (sr, sob), nbytes = baddr(c.args[0], env0), baddr(c.args[1], env0), ival(c.args[2], env0)
                    if sr[0] != 'param' or dob % sz or sob % sz or nbytes % sz:
                        bad.setdefault('%s/cover' % dst, 'count = %d, rotate = %d: a copy into `%s` does not move whole elements of one input array' % (count, rotate, dst))
                        continue
                    do, so, nb = dob // sz, sob // sz, nbytes
                    for k in range(nb // sz):
                        if do + k in m:
                            bad.setdefault('%s/overlap' % dst, 'count = %d, rotate = %d: element %d of `%s` is written by both copies' % (count, rotate, do + k, dst))
                        m[do + k] = so + k
                total = ival(allocs[dst].args[0], env0) // sz
                if sorted(m) != list(range(total)):
                    bad.setdefault('%s/cover' % dst, 'count = %d, rotate = %d: the copies fill elements %s of `%s` but %d are allocated and read' % (count, rotate, _ranges(sorted(m)), dst, total))
                maps[dst] = (m, total // (count + 1))
            # one common rotation
            for dst, (m, stride) in maps.items():
                for k in range(count + 1):
                    want = ((k + rotate) % count) * stride
                    if m.get(k * stride) != want:
                        bad.setdefault('%s/rotation' % dst, 'count = %d, rotate = %d: `%s[%d]` is a copy of source element %s, not of element %d (vertex (%d + rotate) mod count)' % (count, rotate, dst, k * stride, m.get(k * stride), want, k))
            # store-back
            pm = maps['pts'][0]
            n_ = count   # points_size - 1
            for ii in range(n_):
                env = dict(env0)
                env[lv] = ii
                env['n'] = n_
                _ienv([st for st in loop.child('body').c if st is not None and st.k == 'DeclStmt'], env)
                for a in stores:
                    idx = ieval(_strip_casts(a.child('lhs')).c[1], env)
                    anchor = next(x for x in a.child('rhs').walk() if x.k == 'ArraySubscriptExpr' and _strip_casts(x.c[0]).n == 'pts')
                    ai = ieval(anchor.c[1], env)
                    c_, r_ = divmod(idx, 3)
                    want = 3 * c_ if r_ == 1 else 3 * ((c_ + 1) % count)
                    nenv += 1
                    if r_ not in (1, 2) or not (0 <= idx < 3 * count) or pm.get(ai) != want:
                        bad.setdefault('store@%s' % a.loc(), 'count = %d, rotate = %d, %s = %d: the control point stored in points[%d] is computed from pts[%d], which is a copy of points[%s] - it belongs to the segment at points[%d]' % (count, rotate, lv, ii, idx, ai, pm.get(ai), want))
    for dst in copies:
        for what in ('overlap', 'cover', 'rotation'):
            key = '%s/%s' % (dst, what)
            ctx.check(key not in bad, 'R-INDEX.rotation', 'hobby_interpolation/%s' % key, copies[dst][0].loc(), 'work array `%s`: %s holds for every count 2..7 and rotation' % (dst, what), bad.get(key))
    for a in stores:
        key = 'store@%s' % a.loc()
        ctx.check(key not in bad, 'R-INDEX.rotation', 'hobby_interpolation/%s' % key, a.loc(), 'control points go back to the segment whose end point they were computed from (un-rotation is the inverse of the rotation)', bad.get(key))
    ctx.require('R-INDEX.rotation evaluated stores', nenv, 200)


def check_elliptical_radii(ctx, db):
    """R-PAIR.radii: an angle passed through elliptical_angle_transform(a, p, q) parametrises the ellipse with semi-axes
    (p, q) only. Forward dataflow over the CFG carries the (p, q) of every transform reaching a variable; wherever such
    an angle is used as `R * cos(angle)` / `R * sin(angle)`, R must be that p / q for every reaching definition."""
    n = 0
    for qn in ('gdstk::ellipse', 'gdstk::Curve::arc'):
        f = db.fn(qn)
        ctx.touch(f)
        g = f.cfg

        def tags_of(e, st):
            out = set()
            for x in e.walk():
                if x.k == 'CallExpr' and x.callee == 'gdstk::elliptical_angle_transform':
                    return {(norm(x.args[1].text()), norm(x.args[2].text()), x.loc())}
            for x in e.walk():
                if x.k == 'DeclRefExpr':
                    k = lvalue_key(x)
                    out |= {(p, q, l) for (kk, p, q, l) in st if kk == k}
            return out

        def transfer(node, st):
            key = rhs = None
            if node.k == 'VarDecl' and node.child('init') is not None:
                key, rhs = 'v%d:%s' % (node.d, node.n), node.child('init')
            elif is_assign(node) and node.op == '=' and _strip_casts(node.child('lhs')).k == 'DeclRefExpr':
                key, rhs = lvalue_key(node.child('lhs')), node.child('rhs')
            if key is None:
                return st
            t = tags_of(rhs, st)
            return frozenset({x for x in st if x[0] != key} | {(key, p, q, l) for (p, q, l) in t})
        ins, _ = g.forward(frozenset(), transfer)
        for b, st in ins.items():
            for node in g.elements(g.blocks[b]):
                if node.k == 'BinaryOperator' and node.op == '*':
                    for trig, other in ((node.child('rhs'), node.child('lhs')), (node.child('lhs'), node.child('rhs'))):
                        trig = _strip_casts(trig)
                        if trig.k == 'CallExpr' and trig.callee in ('cos', 'sin'):
                            t = tags_of(trig.args[0], st)
                            if not t:
                                continue
                            n += 1
                            r = norm(other.text())
                            badt = [(p, q, l) for (p, q, l) in t if r != (p if trig.callee == 'cos' else q)]
                            ctx.check(not badt, 'R-PAIR.radii', '%s/%s@%s' % (qn.replace('gdstk::', ''), trig.callee, node.loc()), node.loc(), 'the angle was transformed for the ellipse whose %s semi-axis multiplies its %s' % ('x' if trig.callee == 'cos' else 'y', trig.callee),
                                      '`%s` uses an angle transformed at %s for semi-axes (%s, %s): the elliptical parameter belongs to a different ellipse, the vertex is off the requested start/end direction' % (norm(node.text())[:60], badt[0][2] if badt else '', badt[0][0] if badt else '', badt[0][1] if badt else ''))
                node_st = st
                st = transfer(node, st)
    ctx.require('R-PAIR.radii trig uses of transformed angles', n, 6)    # (10 on the pinned tree; uses that move into a helper are not seen by the dataflow)


def _ranges(xs):
    out = []
    for x in xs:
        if out and out[-1][1] == x - 1:
            out[-1][1] = x
        else:
            out.append([x, x])
    return ','.join('%d-%d' % (a, b) if a != b else str(a) for a, b in out)


def check_inverse_trig_domains(ctx, db):
    """R-DOMAIN: acos / asin return NaN outside [-1, 1]. In the curve and primitive code every such call is either guarded - its
    argument (the same expression or variable) is compared with -1 / 1 on the way (`c < -1 ? M_PI : acos(c)`, a clamp statement) -
    or NaN-contained: the result is only used under a comparison of the result itself (`if (theta > eps) {...}`: false for NaN, the
    other branch does not use it). `acos(1 - curvature * tolerance)` with an unbounded product is neither: a tolerance larger than
    twice the local radius of curvature gives a NaN step, a NaN vertex and a section that does not end at its end point."""
    n = 0
    for f in db.functions:
        if f.body is None or f.relfile() not in ('src/curve.cpp', 'src/polygon.cpp', 'src/utils.cpp', 'src/flexpath.cpp', 'src/robustpath.cpp'):
            continue
        for c in f.walk():
            if c.k != 'CallExpr' or (c.callee or '') not in ('acos', 'asin'):
                continue
            n += 1
            ctx.touch(f)
            arg = _strip_casts(c.args[0])
            atext = norm(arg.text())
            names = {x.n for x in arg.walk() if x.k == 'DeclRefExpr'}
            guarded = False
            # (a) a condition on the way (enclosing if / ?: / guard clause) compares the argument with -1 or 1
            conds = [cn for cn, pol in tables.path_conds(c)]
            y, prev = c.parent, c
            while y is not None:
                if y.k == 'ConditionalOperator' and prev is not y.child('cond'):
                    conds.append(y.child('cond'))
                prev, y = y, y.parent
            for cn in conds:
                for b in cn.walk():
                    if b.k == 'BinaryOperator' and b.op in ('<', '>', '<=', '>='):
                        l, r = _strip_casts(b.child('lhs')), _strip_casts(b.child('rhs'))
                        for u, v in ((l, r), (r, l)):
                            lim = v.fv if v.fv is not None else v.cv
                            if v.k == 'UnaryOperator' and v.op == '-' and v.child('sub') is not None:
                                sv = _strip_casts(v.child('sub'))
                                lim = -(sv.fv if sv.fv is not None else (sv.cv or 0))
                            if lim in (1, -1, 1.0, -1.0) and (norm(u.text()) == atext or (u.k == 'DeclRefExpr' and u.n in names and len(names) == 1)):
                                guarded = True
            # (a') a clamp statement on the argument variable before the call: `if (x < -1) x = -1;`
            if not guarded and arg.k == 'DeclRefExpr':
                for i in f.walk():
                    if i.k == 'IfStmt' and i.pos < c.pos:
                        for b in i.child('cond').walk():
                            if b.k == 'BinaryOperator' and b.op in ('<', '>', '<=', '>=') and any(_strip_casts(z).k == 'DeclRefExpr' and _strip_casts(z).d == arg.d for z in (b.child('lhs'), b.child('rhs'))):
                                if any(is_assign(a_) and _strip_casts(a_.child('lhs')).k == 'DeclRefExpr' and _strip_casts(a_.child('lhs')).d == arg.d for a_ in i.child('then').walk()):
                                    guarded = True
            # (b) NaN-contained: the result initialises a local whose every use is under a comparison of that local
            contained = False
            p_ = c.parent
            while p_ is not None and p_.k in ('ImplicitCastExpr', 'CStyleCastExpr'):
                p_ = p_.parent
            if p_ is not None and p_.k == 'VarDecl':
                uses = [x for x in f.walk() if x.k == 'DeclRefExpr' and x.d == p_.d]
                def under_own_test(u):
                    for cn, pol in tables.path_conds(u):
                        if pol and any(b.k == 'BinaryOperator' and b.op in ('<', '>', '<=', '>=') and any(_strip_casts(z).k == 'DeclRefExpr' and _strip_casts(z).d == p_.d for z in (b.child('lhs'), b.child('rhs'))) for b in cn.walk()):
                            return True
                    return False
                def is_the_test(u):
                    q = u.parent
                    while q is not None and q.k in ('ImplicitCastExpr',):
                        q = q.parent
                    return q is not None and q.k == 'BinaryOperator' and q.op in ('<', '>', '<=', '>=')
                contained = bool(uses) and all(under_own_test(u) or is_the_test(u) for u in uses)
            ctx.check(guarded or contained, 'R-DOMAIN', '%s/%s@%s' % (f.qn.replace('gdstk::', ''), c.callee, c.loc()), c.loc(),
                      '%s(%s): the argument is %s' % (c.callee, atext[:50], 'compared with the end of the domain on the way' if guarded else 'not bounded, but a NaN result cannot reach any computation (every use is under a comparison of the result)'),
                      '%s(%s): nothing bounds the argument to [-1, 1] and the result flows on unchecked: outside the domain the result is NaN (for a section sampler: NaN step, NaN vertex, the section does not end at its end point)' % (c.callee, atext[:60]))
    ctx.require('R-DOMAIN inverse trigonometric calls', n, 4)


def run(ctx):
    db = ctx.db
    ctx.attempt(check_hobby_indices, ctx, db)
    ctx.attempt(check_elliptical_radii, ctx, db)
    f = db.fn('gdstk::Curve::commands')
    ctx.touch(f)
    n, table = consume.check_commands(ctx, f)
    ctx.require('R-CONSUME arms', n, 10)
    g = db.fn('gdstk::RobustPath::commands')
    n2, table2 = consume.check_commands(ctx.sub(), g)
    ctx.check(table == table2 and bool(table), 'R-TABLE', 'commands/letter->method', f.loc(), 'Curve::commands and RobustPath::commands map every letter to the same-named method (%d letters groups)' % len(table),
              'command tables differ: %s vs %s' % (sorted(table.items()), sorted(table2.items())))
    fp = db.fn('gdstk::FlexPath::commands')
    t = norm(clone.canon(fp.body, fp, ren=clone.Renamer(fp, params_by_name=True)))
    ctx.check('this->spine.commands($items, $count)' in t and 'this->fill_offsets_and_widths(NULL, NULL)' in t, 'R-SHAPE', 'FlexPath::commands/delegates', fp.loc(), 'FlexPath::commands runs the curve interpreter on its spine and then fills widths/offsets')
    ctx.attempt(check_last_ctrl, ctx, db)
    ctx.attempt(check_straight_last_ctrl, ctx, db)
    ctx.attempt(check_clamps, ctx, db)
    ctx.attempt(check_samplers, ctx, db)
    ctx.attempt(check_dimensions, ctx, db)
    ctx.attempt(check_builders_model, ctx, db)
    ctx.attempt(check_fillet_model, ctx, db, ctx.tier)
    ctx.attempt(check_section_algebra, ctx, db)
    ctx.attempt(check_inverse_trig_domains, ctx, db)
    fns = [f for f in db.functions if f.body is not None and f.relfile() in ('src/polygon.cpp', 'src/curve.cpp')]
    n = check_clamp_chains(ctx, fns)
    ctx.require('R-CLAMP.chain clamp statements', n, 20)
    from ..controls import load_controls
    cdb = load_controls()
    for name, expect in (('ctl_clamp_chain', True), ('ctl_clamp_chain_ok', False), ('ctl_clamp_range_ok', False)):
        sub = ctx.sub(cdb)
        check_clamp_chains(sub, [cdb.fn('controls::' + name)])
        ctx.control('%s (R-CLAMP.chain %s)' % (name, 'fires' if expect else 'silent'), bool(sub.violations('R-CLAMP.chain')) == expect)


MANIFEST = dict(
    text='Decides structural necessary conditions for curve sections: Curve::commands consumes exactly the operands its guard and advance constants state and agrees letter-by-letter with RobustPath::commands; every section method stores last_ctrl on every path (or delegates unconditionally), and on the relative path the stored control point is absolute (dependence closure reaches the current end point / absolute control polygon); every vertex count from arc_num_points that is used as a divisor is dominated by a clamp to >= 2 (or the n == 1 guard); the four adaptive samplers clamp the parameter step so the last vertex is the requested end point; one generic iteration of cubic, cubic_smooth, quadratic and quadratic_smooth, in relative and absolute mode, hands exactly the documented control points to the flattening routine and carries exactly the documented end/control point to the next section (polynomial identities); the flatness tests compare squared deviations only with the squared tolerance and fillet, ellipse, racetrack, cross and Curve::arc are dimensionally consistent throughout (powers-of-length analysis, ~190 resolved sites: no absolute threshold, no length compared with an area), angle reduction uses a floored modulo; the wrap-around indices of the Hobby solver are cyclic shifts in bounds, its rotated work arrays are filled completely with one common rotation and control points are stored back to the segment they were computed for (index expressions and memcpy extents evaluated exhaustively for count 2..7 and every rotation); an angle passed through elliptical_angle_transform is only multiplied by the semi-axes it was transformed for (forward dataflow over the CFG); two bounds of the same direction on one variable (fillet radius vs both adjacent edges) are applied independently, never else-chained. Tolerance and finiteness of sampled vertices are not decided. The list overloads of cubic / cubic_smooth / quadratic / quadratic_smooth are interpreted on two sections (control points handed to the flattener, reference point of the second section, remembered control point). Polygon::fillet is interpreted in IEEE doubles on 30 (thorough 90) small polygons - square, L, triangle, both orientations, rotated across the atan2 cut, one radius / per-vertex radii / a radius too large - against the exact filleted outline: every corner arc is tangent to both edges, of the (clamped) radius, the short way round and within twice the tolerance. These polygons are samples: the rule decides them and the three branches of the angle reduction they reach, not every polygon. The four adaptive samplers are interpreted on seven sample sections and two tolerances (R-MODEL.sampler): no parameter beyond 1, vertices on the exact curve in order, the last one exactly the end point, the curve within three tolerances of every chord (sampled sections).',
    note='Trusted: clang front end, gx, sa rules. `parametric` is exempt from the last_ctrl rule (stated reason in the checker).',
    technique='operand-consumption tables + must-write dataflow over the CFG + dependence closure + clamp dominance + clamp-chain discipline + interpretation of the section builders and of Polygon::fillet on sampled small polygons (sa/minieval, IEEE doubles; closest to a bounded test run by the checker\'s interpreter, see DESIGN 9.3)',
    design='§4 C15')
