"""C16 — library edits: tagged-union discipline, per-overload rewrite tables of rename/replace,
full cell x reference coverage, top_level / dependency collectors, tag aggregators, deep copy remap."""
import re
from .. import tagunion, tables, clone
from ..facts import AnalysisBroken
from ..flow import lvalue_key, is_assign, _strip_casts

EXPLANATION = ('R-TAGUNION: every access to Reference::{cell,rawcell,name} in the edit/query functions happens where the tag is '
               'established (case arm, type test, early-exit guard, preceding tag store; constraints intersected). R-TABLE: for each '
               'of the four replace_cell overloads the (case -> condition, stores) table extracted from the code equals the table '
               'derived from the overload\'s signature: the arm of the old kind matches by pointer, the other pointer arm by full '
               'strcmp on the target\'s name, the Name arm by `rename && strcmp(name, old_name) == 0`; every matching pointer arm '
               'stores the new pointer in the member of the new kind and stores the new tag when the kind changes; the Name arm '
               'reallocates to 1+strlen(new_name) and copies exactly that many bytes; the container arrays are updated as the '
               'signature dictates. rename_cell compares with full strcmp, rewrites by-name references and the cell name with the '
               'same size. R-AGG: every overload loops over all cells x all references; top_level gathers dependencies of all cells '
               'and raw cells non-recursively and keeps a cell iff the dependency map does not hold itself; get_dependencies/'
               'get_raw_dependencies recurse only when the map does not already hold that pointer and always record the target; '
               'remap_tags/get_shape_tags/get_label_tags visit every tagged element kind; a deep Library::copy_from remaps Cell '
               'references into the copy. Equivalence with a graph model over edit histories is not decided.')
ASSUMPTIONS = ['Array::index/remove_unordered/append and Map are covered by C20', 'file readers\' name resolution at ENDLIB/END is C03/C04\'s subject, not an instance here']
XREF_FILES = ['src/library.cpp', 'src/cell.cpp']

TAG_FUNCS = ['gdstk::Library::rename_cell', 'gdstk::Library::replace_cell', 'gdstk::Library::copy_from', 'gdstk::Reference::copy_from', 'gdstk::Reference::clear',
             'gdstk::Reference::init', 'gdstk::Cell::get_dependencies', 'gdstk::Cell::get_raw_dependencies', 'gdstk::Reference::bounding_box', 'gdstk::Reference::convex_hull',
             'gdstk::Reference::get_polygons', 'gdstk::Reference::get_flexpaths', 'gdstk::Reference::get_robustpaths', 'gdstk::Reference::get_labels',
             'gdstk::Reference::to_gds', 'gdstk::Reference::to_svg']
# replace_cell is decided by interpretation (R-MODEL.replace); the tables read off its switch arms, its size and rename locals
# and its container update compare spellings and are evidence only
ADVISORY = [('R-TABLE', r'^replace_cell\('), ('R-CONST', r'^replace_cell\(')]
KIND = {'gdstk::Cell *': 'Cell', 'gdstk::RawCell *': 'RawCell', 'Cell *': 'Cell', 'RawCell *': 'RawCell'}
MEMBER = {'Cell': 'cell', 'RawCell': 'rawcell', 'Name': 'name'}
TAGV = {0: 'Cell', 1: 'RawCell', 2: 'Name'}


def norm(t):
    return re.sub(r'<[A-Za-z]+:(?!:)[^>]*>', '', t).replace('gdstk::', '')


def ref_loops(ctx, f, label):
    """outer loop over cell_array, inner over the cell's reference_array, both from 0 with ++ and < count"""
    loops = [l for l in f.walk() if l.k == 'ForStmt']
    ok = len(loops) >= 2
    if ok:
        o, i = loops[0], loops[1]
        ren = clone.Renamer(f, params_by_name=True)
        ok = any(x is i for x in o.walk())
        oc, ic = norm(o.child('cond').text(ren)), norm(i.child('cond').text(ren))
        ok = ok and re.match(r'^\(v\d+ < this->cell_array\.count\)$', oc) is not None and re.match(r'^\(v\d+ < v\d+\.count\)$', ic) is not None
        for L in (o, i):
            iv = next((v for v in L.child('init').walk() if v.k == 'VarDecl'), None)
            ok = ok and iv is not None and iv.child('init').cv == 0 and L.child('inc').k == 'UnaryOperator' and L.child('inc').op in ('++', 'post++')
        ra = next((v for v in o.child('body').walk() if v.k == 'VarDecl' and 'Array<' in (v.t or '') and 'Reference' in (v.t or '')), None)
        rat = re.sub(r'^Array(?:<[^{]*>)?\{(.*)\}$', r'\1', norm(ra.child('init').text(ren))) if ra is not None else ''
        ok = ok and ra is not None and rat.endswith('->reference_array') and rat.startswith('this->cell_array[')
        rv = next((v for v in i.child('body').walk() if v.k == 'VarDecl' and (v.t or '').endswith('Reference *')), None)
        ok = ok and rv is not None and re.match(r'^v\d+\[v\d+\]$', norm(rv.child('init').text(ren))) is not None
    ctx.check(ok, 'R-AGG', label + '/all-cells-x-all-references', f.loc(), 'visits every reference of every cell of the library (0 <= i < cell_array.count, 0 <= j < reference_array.count)')
    return loops[1] if ok else None


def origin_params(fn, e, depth=0):
    """indices of the parameters of fn that the value of e is read from (through locals with a single definition)"""
    out = set()
    if e is None or depth > 6:
        return out
    for x in e.walk():
        if x.k != 'DeclRefExpr':
            continue
        if x.dk == 'param':
            out |= {i for i, p in enumerate(fn.params) if p['d'] == x.d}
        elif x.dk == 'local':
            ds = [v.child('init') for v in fn.walk() if v.k == 'VarDecl' and v.d == x.d and v.child('init') is not None]
            if len(ds) == 1:
                out |= origin_params(fn, ds[0], depth + 1)
    return out


def strcmp_old(fn, cond, path):
    """cond is `strcmp(<local>->path..., <the old name>) == 0` (either operand order, either argument order), where the old
    name is read from the first parameter of fn (directly or through a local)"""
    c = _strip_casts(cond)
    if c is None or c.k != 'BinaryOperator' or c.op != '==':
        return False
    l, r = _strip_casts(c.child('lhs')), _strip_casts(c.child('rhs'))
    call = l if l.k == 'CallExpr' else r if r.k == 'CallExpr' else None
    zero = r if call is l else l
    if call is None or call.callee != 'strcmp' or zero.cv != 0 or len(call.args) != 2:
        return False
    for x, y in ((call.args[0], call.args[1]), (call.args[1], call.args[0])):
        x = _strip_casts(x)
        names = []
        while x is not None and x.k == 'MemberExpr':
            if x.n:
                names.append(x.n)          # anonymous union members are transparent
            x = _strip_casts(x.child('base'))
        if x is not None and x.k == 'DeclRefExpr' and x.dk == 'local' and tuple(reversed(names)) == tuple(path) and origin_params(fn, y) == {0}:
            return True
    return False


def name_rewrite_ok(stmts, refvar=None):
    """X->name = (char*)reallocate(X->name, N); memcpy(X->name, <new name parameter>, N) with the same X and the same N
    (N = 1 + strlen(new name) is decided by the size rule); local names are irrelevant"""
    re_ = None
    mc = None
    for s in stmts:
        for x in s.walk():
            if is_assign(x) and _strip_casts(x.child('lhs')).k == 'MemberExpr' and _strip_casts(x.child('lhs')).n == 'name' and 'gdstk::reallocate(' in x.child('rhs').text():
                re_ = x
            if x.k == 'CallExpr' and x.callee == 'memcpy':
                mc = x
    if re_ is None or mc is None:
        return False, 'name arm does not reallocate + memcpy the new name'
    ra = _strip_casts(re_.child('rhs'))
    while ra is not None and ra.k != 'CallExpr':
        ra = _strip_casts(ra.child('sub')) if ra.child('sub') is not None else None
    if ra is None:
        return False, 'reallocate call not found'
    tgt = norm(_strip_casts(re_.child('lhs')).text())
    a = [norm(_strip_casts(z).text()) for z in ra.args]
    b = [norm(_strip_casts(z).text()) for z in mc.args]
    fn = mc.fn
    if not (a[0] == tgt and b[0] == tgt and a[1] == b[2] and origin_params(fn, mc.args[1]) == {len(fn.params) - 1}):
        return False, 'reallocate/memcpy operands are not (ref->name, size) / (ref->name, new_name, size): %s / %s' % (a, b)
    return True, ''


def size_decl_ok(f):
    """every reallocate in f gets 1 + strlen(<new name>) bytes (through a local of any name), the new name being read from the last parameter"""
    calls = [c for c in f.walk() if c.k == 'CallExpr' and c.callee == 'gdstk::reallocate']
    if not calls:
        return False
    for c in calls:
        e = _strip_casts(c.args[1])
        if e.k == 'DeclRefExpr' and e.dk == 'local':
            ds = [v.child('init') for v in f.walk() if v.k == 'VarDecl' and v.d == e.d and v.child('init') is not None]
            if len(ds) != 1:
                return False
            e = _strip_casts(ds[0])
        if e.k != 'BinaryOperator' or e.op != '+':
            return False
        l, r = _strip_casts(e.child('lhs')), _strip_casts(e.child('rhs'))
        one, sl = (l, r) if l.cv == 1 else (r, l)
        if one.cv != 1 or sl.k != 'CallExpr' or sl.callee != 'strlen' or origin_params(f, sl.args[0]) != {len(f.params) - 1}:
            return False
    return True


def check_replace(ctx, db):
    fs = db.fn('gdstk::Library::replace_cell', all=True)
    if len(fs) != 4:
        raise AnalysisBroken('expected 4 replace_cell overloads, found %d' % len(fs))
    for f in fs:
        ctx.touch(f)
        old_k, new_k = KIND.get(f.params[0]['t']), KIND.get(f.params[1]['t'])
        if not old_k or not new_k:
            raise AnalysisBroken('replace_cell overload with unexpected parameter types: %s' % f.sig)
        label = 'replace_cell(%s->%s)' % (old_k, new_k)
        inner = ref_loops(ctx, f, label)
        ctx.check(size_decl_ok(f), 'R-CONST', label + '/size', f.loc(), 'size = 1 + strlen(new_name)')
        rn = next((v for v in f.walk() if v.k == 'VarDecl' and v.n == 'rename'), None)
        ok = rn is not None and norm(rn.child('init').text()) == '(strcmp(old_name, new_name) != 0)'
        ctx.check(ok, 'R-TABLE', label + '/rename-flag', f.loc(), 'rename <=> the two names differ (full strcmp)')
        # container update
        arr_old = 'this->%s_array' % MEMBER[old_k]
        arr_new = 'this->%s_array' % MEMBER[new_k]
        idx = next((v for v in f.walk() if v.k == 'VarDecl' and v.n == 'index'), None)
        ok = idx is not None and norm(idx.child('init').text()) == '%s.index(old_cell)' % arr_old
        guard = next((i for i in f.body.c if i is not None and i.k == 'IfStmt'), None)
        ok = ok and guard is not None and norm(guard.child('cond').text()) == '(index < %s.count)' % arr_old
        if ok:
            th = norm('; '.join(x.text() for x in (guard.child('then').c if guard.child('then').k == 'CompoundStmt' else [guard.child('then')])))
            if old_k == new_k:
                ok = th == '(%s.items[index] = new_cell)' % arr_old
            else:
                ok = th == '%s.remove_unordered(index); %s.append(new_cell)' % (arr_old, arr_new)
        ctx.check(ok, 'R-TABLE', label + '/container', f.loc(), 'the old entry is replaced in place (same kind) or removed from %s and appended to %s (kind change), only when present' % (arr_old, arr_new))
        # switch table
        sw = next((s for s in (inner.walk() if inner is not None else f.walk()) if s.k == 'SwitchStmt'), None)
        if sw is None:
            raise AnalysisBroken('%s: switch over ref->type not found' % label)
        tables.check_exhaustive(ctx, db, f, 'gdstk::ReferenceType')
        for labels, stmts, top in tables.switch_arms(sw):
            for l in labels:
                arm = TAGV.get(l)
                key = '%s/arm:%s' % (label, arm)
                iff = stmts[0] if stmts and stmts[0].k == 'IfStmt' else None
                if iff is None or len(stmts) != 1:
                    ctx.violation('R-TABLE', key, top.loc(), 'arm is not a single guarded rewrite')
                    continue
                # names of locals are irrelevant: the arm is printed with its locals numbered by first occurrence
                # (the reference cursor is v0) and parameters by name; `a == b` is compared as the set {a, b}
                ren = clone.Renamer(f, params_by_name=True)
                cnode = _strip_casts(iff.child('cond'))
                cond = norm(cnode.text(ren))
                then = iff.child('then').stmts()

                def eq_sides(c):
                    c = _strip_casts(c)
                    if c is not None and c.k == 'BinaryOperator' and c.op == '==':
                        return frozenset((norm(_strip_casts(c.child('lhs')).text(ren)), norm(_strip_casts(c.child('rhs')).text(ren))))
                    return None
                if arm == 'Name':
                    flag = _strip_casts(cnode.child('lhs')) if cnode.k == 'BinaryOperator' and cnode.op == '&&' else None
                    okc = flag is not None and flag.k == 'DeclRefExpr' and flag.dk == 'local' and strcmp_old(f, cnode.child('rhs'), ('name',))
                    okw, why = name_rewrite_ok(then, None)
                    ctx.check(okc and okw, 'R-TABLE', key, top.loc(), 'by-name references equal (full strcmp) to the old name are renamed when the names differ',
                              'Name arm: condition `%s` %s' % (cond, why))
                    continue
                if arm == old_k:
                    want_cond = '(ref->%s == old_cell)' % MEMBER[arm]
                    okc = eq_sides(cnode) == frozenset(('v0->%s' % MEMBER[arm], '$old_cell'))
                else:
                    want_cond = '(strcmp(ref->%s->name, old_name) == 0)' % MEMBER[arm]
                    okc = strcmp_old(f, cnode, (MEMBER[arm], 'name'))
                stores = {}
                for x in then:
                    if is_assign(x):
                        stores[re.sub(r'^v\d+->', 'ref->', norm(x.child('lhs').text(ren)))] = norm(x.child('rhs').text(ren)).replace('$', '')
                want = {'ref->%s' % MEMBER[new_k]: 'new_cell'}
                if arm != new_k:
                    want['ref->type'] = 'ReferenceType::%s' % new_k
                oks = stores == want or (arm == new_k and stores == dict(want, **{'ref->type': 'ReferenceType::%s' % new_k}))
                ctx.check(okc and oks, 'R-TABLE', key, top.loc(), 'matches %s and stores %s' % (want_cond, want),
                          'arm %s of %s: expected condition %s with stores %s; found condition %s with stores %s' % (arm, label, want_cond, want, cond, stores))
                # order: tag store precedes member store when both are present
                if 'ref->type' in stores:
                    order = [re.sub(r'^v\d+->', 'ref->', norm(x.child('lhs').text(ren))) for x in then if is_assign(x)]
                    ctx.check(order.index('ref->type') < order.index('ref->%s' % MEMBER[new_k]), 'R-TAGUNION', key + '/tag-then-member', top.loc(), 'the tag is stored before the member of the new kind')


def replace_model(db, old_kind, new_kind, same_name, in_library):
    """Library::replace_cell(old, new) for one of the four overloads, interpreted (sa/minieval) on a small library: a top cell whose
    references point - by pointer - to the old cell (when it is a Cell), to another cell, to a different cell that merely has the
    old name (one of each kind: the one of the old cell's own kind is a different object and stays); - as raw cells - to the old raw cell (when it is one), to a raw cell that has the old name, to another raw cell; - by
    name - to the old name and to a longer name; a second cell repeats the by-pointer / by-name references. Strings, allocation
    and the array methods are answered by the harness. Returns the list of problems."""
    from .. import minieval as M
    fs = db.fn('gdstk::Library::replace_cell', all=True)
    f = next((x for x in fs if KIND.get(x.params[0]['t']) == old_kind and KIND.get(x.params[1]['t']) == new_kind), None)
    if f is None:
        raise AnalysisBroken('replace_cell(%s -> %s) not found' % (old_kind, new_kind))
    en = {c['n']: c['v'] for c in db.enum('gdstk::ReferenceType')['consts']}
    NEWN = {0: 'fresh!', 1: 'old', 2: 'n'}[int(same_name)]          # a longer name, the same name, a name shorter than the old one

    lists = []

    def arr(lst):
        lists.append(lst)
        return M.Obj(items=M.Ptr(lst, 0) if lst else 0, count=len(lst), capacity=len(lst))
    old = M.Obj(name='old', reference_array=arr([]), ident='OLD')
    new = M.Obj(name=NEWN, reference_array=arr([]), ident='NEW')
    other = M.Obj(name='x', reference_array=arr([]), ident='X')
    twin = M.Obj(name='old', reference_array=arr([]), ident='TWIN')          # of the OTHER kind than old: reached by name only
    raw_other = M.Obj(name='rx', ident='RX')

    def cref(c):
        return M.Obj(type=en['Cell'], cell=c, tag_='c:' + c['ident'])

    def rref(c):
        return M.Obj(type=en['RawCell'], rawcell=c, tag_='r:' + c['ident'])

    def nref(nm):
        return M.Obj(type=en['Name'], name=nm, tag_='n:' + nm)
    r_top = [cref(other), nref('old'), nref('oldx'), rref(raw_other)]
    r_two = [nref('old')]
    same = M.Obj(name='old', reference_array=arr([]), ident='SAME')          # of the SAME kind as old, with its name, from another library: not the old cell
    if old_kind == 'Cell':
        r_top += [cref(old), rref(twin), cref(same)]
        r_two += [cref(old)]
    else:
        r_top += [rref(old), cref(twin), rref(same)]
        r_two += [rref(old)]
    top = M.Obj(name='top', reference_array=arr(r_top), ident='TOP')
    two = M.Obj(name='two', reference_array=arr(r_two), ident='TWO')
    cells = [top, other, two] + ([twin] if old_kind == 'RawCell' else []) + ([old] if old_kind == 'Cell' and in_library else [])
    raws = [raw_other] + ([twin] if old_kind == 'Cell' else []) + ([old] if old_kind == 'RawCell' and in_library else [])
    if in_library and len(cells) > 3 and old_kind == 'Cell':
        cells = [top, old, other, two]           # not the last entry: remove_unordered moves another cell into its slot
    this = M.Obj(cell_array=arr(cells), rawcell_array=arr(raws))
    before = {'cells': [c['ident'] for c in cells], 'raws': [c['ident'] for c in raws]}
    problems = []
    ref = [None]

    def text(v):
        if isinstance(v, M.Obj) and v.get('buf'):
            return v.get('text')
        return v if isinstance(v, str) else None

    def extra(callee, args, node):
        c = callee or ''
        short = c.split('::')[-1]
        if short == 'strlen':
            t = text(args[0])
            if t is None:
                problems.append('strlen of something that is not a string at %s' % node.loc())
                return (0,)
            return (len(t),)
        if short == 'strncmp':
            a, b = text(args[0]), text(args[1])
            if a is None or b is None:
                problems.append('a name is compared that is not a string at %s' % node.loc())
                return (1,)
            a, b = a[:int(args[2])], b[:int(args[2])]
            return ((a > b) - (a < b),)
        if short == 'strcmp':
            a, b = text(args[0]), text(args[1])
            if a is None or b is None:
                problems.append('a name is compared that is not a string at %s (a member of the union that is not the active one)' % node.loc())
                return (1,)
            return ((a > b) - (a < b),)
        if short == 'reallocate':
            return (M.Obj(buf=True, size=int(args[1]), text=None),)
        if short == 'memcpy':
            d, src, n = args[0], text(args[1]), int(args[2])
            if not (isinstance(d, M.Obj) and d.get('buf')) or src is None:
                problems.append('memcpy into something that was not allocated here at %s' % node.loc())
                return (args[0],)
            if n > d['size']:
                problems.append('memcpy of %d bytes into %d at %s' % (n, d['size'], node.loc()))
            d['text'] = src if n == len(src) + 1 else ('%s<unterminated>' % src[:n])
            return (args[0],)
        if short == 'copy_string':
            t = text(args[0])
            return (M.Obj(buf=True, size=len(t) + 1, text=t),)
        if short == 'free_allocation':
            return (None,)
        if c.startswith('gdstk::Array<') and short in ('index', 'remove_unordered', 'contains'):
            o = ref[0].call_object()
            lst = o['items'].arr[o['items'].i:o['items'].i + o['count']] if o.get('count') else []
            if short in ('index', 'contains'):
                k_ = next((i_ for i_, x_ in enumerate(lst) if x_ is args[0]), len(lst))
                return (k_,) if short == 'index' else (int(k_ < len(lst)),)
            i_ = int(args[0])
            if not (0 <= i_ < o['count']):
                raise M.OutOfBounds('remove_unordered(%d) on an array of %d at %s' % (i_, o['count'], node.loc()))
            o['items'].arr[o['items'].i + i_] = o['items'].arr[o['items'].i + o['count'] - 1]
            o['count'] -= 1
            return (None,)
        return None
    mi = M.Mini(db, hook=M.array_hook(ref, extra), budget=200000)
    mi.obj_store = True
    ref[0] = mi
    for l_ in lists:
        mi.writable.add(id(l_))
    try:
        mi.run(f.body, {'this': this, f.params[0]['n']: old, f.params[1]['n']: new})
    except M.Return:
        pass
    except M.OutOfBounds as ex:
        problems.append(str(ex))
        return problems

    def members(a):
        return [x['ident'] for x in (a['items'].arr[a['items'].i:a['items'].i + a['count']] if a['count'] else [])]
    key_old, key_new = ('cells' if old_kind == 'Cell' else 'raws'), ('cells' if new_kind == 'Cell' else 'raws')
    want = {k_: list(v_) for k_, v_ in before.items()}
    if in_library:
        if old_kind == new_kind:
            want[key_old] = ['NEW' if x == 'OLD' else x for x in want[key_old]]
        else:
            want[key_old] = [x for x in want[key_old] if x != 'OLD']
            want[key_new] = want[key_new] + ['NEW']
    got = {'cells': members(this['cell_array']), 'raws': members(this['rawcell_array'])}
    if got['cells'] != want['cells'] if old_kind == new_kind else (sorted(got['cells']) != sorted(want['cells'])):
        problems.append('cell_array holds %s afterwards, expected %s' % (got['cells'], want['cells']))
    if got['raws'] != want['raws'] if old_kind == new_kind else (sorted(got['raws']) != sorted(want['raws'])):
        problems.append('rawcell_array holds %s afterwards, expected %s' % (got['raws'], want['raws']))
    new_tag = en[new_kind]
    field = 'cell' if new_kind == 'Cell' else 'rawcell'
    for r in r_top + r_two:
        t0 = r['tag_']
        hit = t0 in ('c:OLD', 'r:OLD', 'c:TWIN', 'r:TWIN')
        if t0.startswith('n:'):
            exp = NEWN if t0 == 'n:old' else t0[2:]
            if r['type'] != en['Name'] or text(r.get('name')) != exp:
                problems.append('the by-name reference to `%s` reads `%s` (type %s) afterwards, expected `%s`' % (t0[2:], text(r.get('name')), r['type'], exp))
        elif hit:
            if r['type'] != new_tag or r.get(field) is not new:
                problems.append('the reference %s is of type %s and points to %s afterwards, expected type %s pointing to the new %s' % (t0, r['type'], (r.get(field) or {}).get('ident') if isinstance(r.get(field), M.Obj) else r.get(field), new_tag, new_kind))
        else:
            k0, f0 = (en['Cell'], 'cell') if t0.startswith('c:') else (en['RawCell'], 'rawcell')
            if r['type'] != k0 or not isinstance(r.get(f0), M.Obj) or r[f0]['ident'] != t0[2:]:
                problems.append('the reference %s, which has nothing to do with the old cell, was changed' % t0)
    return problems


def check_replace_model(ctx, db):
    """R-MODEL.replace: the four overloads x {new name differs, same name} x {old cell in the library, not in it}."""
    n = 0
    for ok_, nk_ in (('Cell', 'Cell'), ('Cell', 'RawCell'), ('RawCell', 'Cell'), ('RawCell', 'RawCell')):
        f = next(x for x in db.fn('gdstk::Library::replace_cell', all=True) if KIND.get(x.params[0]['t']) == ok_ and KIND.get(x.params[1]['t']) == nk_)
        ctx.touch(f)
        for same in (0, 1, 2):
            for inlib in (1, 0):
                n += 1
                pr = replace_model(db, ok_, nk_, same, inlib)
                ctx.check(not pr, 'R-MODEL.replace', 'replace_cell(%s->%s)/%s,%s' % (ok_, nk_, {0: 'new name', 1: 'same name', 2: 'shorter name'}[same], 'in library' if inlib else 'not in library'), f.loc(),
                          'the container is updated, references of the old kind by identity and of the other kind by name point to the new cell with the new kind, by-name references follow the name, nothing else changes', '; '.join(pr[:2]))
    ctx.explored['valuations'] += n
    ctx.require('R-MODEL.replace scenarios', n, 24)


def rename_model(db, by_name, missing=False, new_name='fresh!'):
    """Library::rename_cell interpreted (sa/minieval) on a library of three cells - `top`, `old`, `oldx` - whose references are
    by-name (`old`, `oldx`, `ol`), by-pointer (to the renamed cell: its name field is the other member of the union) and raw.
    strlen / strcmp / reallocate / memcpy / get_cell are answered by the harness; comparing the name of a reference that is not
    by-name is reported. Returns the list of problems."""
    from .. import minieval as M
    fs = db.fn('gdstk::Library::rename_cell', all=True)
    f = next((x for x in fs if 'Cell' in x.params[0]['t']), None)
    g = next((x for x in fs if x is not f), None)
    en = {c['n']: c['v'] for c in db.enum('gdstk::ReferenceType')['consts']} if 'consts' in db.enum('gdstk::ReferenceType') else None
    if en is None:
        e_ = db.enum('gdstk::ReferenceType')
        en = {c.get('n'): c.get('v') for c in e_.get('items', e_.get('enumerators', []))}
    NEW = new_name

    def nref(nm):
        return M.Obj(type=en['Name'], name=nm, kind='name')

    def arr(lst):
        return M.Obj(items=M.Ptr(lst, 0) if lst else 0, count=len(lst), capacity=len(lst))
    renamed = M.Obj(name='old', reference_array=arr([]))
    r_top = [nref('old'), nref('oldx'), nref('ol'), M.Obj(type=en['Cell'], cell=renamed, kind='cell'), M.Obj(type=en['RawCell'], rawcell=M.Obj(name='old'), kind='raw'), nref('old')]
    r_x = [nref('old')]
    cells = [M.Obj(name='top', reference_array=arr(r_top)), renamed, M.Obj(name='oldx', reference_array=arr(r_x))]
    this = M.Obj(cell_array=arr(cells), rawcell_array=arr([]))
    problems = []
    ref = [None]

    def text(v):
        if isinstance(v, M.Obj) and v.get('buf'):
            return v.get('text')
        return v if isinstance(v, str) else None

    def extra(callee, args, node):
        c = callee or ''
        short = c.split('::')[-1]
        if short == 'strlen':
            t = text(args[0])
            if t is None:
                problems.append('strlen of something that is not a string at %s' % node.loc())
                return (0,)
            return (len(t),)
        if short == 'strncmp':
            a, b = text(args[0]), text(args[1])
            if a is None or b is None:
                problems.append('a name is compared that is not a string at %s' % node.loc())
                return (1,)
            a, b = a[:int(args[2])], b[:int(args[2])]
            return ((a > b) - (a < b),)
        if short == 'strcmp':
            a, b = text(args[0]), text(args[1])
            if a is None or b is None:
                problems.append('a reference that is not by-name has its name compared at %s (the field is the other member of the union)' % node.loc())
                return (1,)
            return ((a > b) - (a < b),)
        if short == 'reallocate':
            return (M.Obj(buf=True, size=int(args[1]), text=None, was=text(args[0])),)
        if short == 'memcpy':
            d, src, n = args[0], text(args[1]), int(args[2])
            if not (isinstance(d, M.Obj) and d.get('buf')) or src is None:
                problems.append('memcpy into something that was not allocated here at %s' % node.loc())
                return (args[0],)
            if n > d['size']:
                problems.append('memcpy of %d bytes into %d at %s' % (n, d['size'], node.loc()))
            d['text'] = src if n == len(src) + 1 else ('%s<unterminated>' % src[:n])
            return (args[0],)
        if short == 'copy_string':
            t = text(args[0])
            return (M.Obj(buf=True, size=len(t) + 1, text=t),)
        if short == 'get_cell':
            want = text(args[0])
            return (next((c_ for c_ in cells if text(c_['name']) == want), 0),)
        if short == 'free_allocation':
            return (None,)
        return None
    mi = M.Mini(db, hook=M.array_hook(ref, extra), budget=100000)
    mi.obj_store = True
    ref[0] = mi
    if by_name:
        env = {'this': this, g.params[0]['n']: ('nowhere' if missing else 'old'), g.params[1]['n']: NEW}
        fn = g
    else:
        env = {'this': this, f.params[0]['n']: renamed, f.params[1]['n']: NEW}
        fn = f
    try:
        mi.run(fn.body, env)
    except M.Return:
        pass
    except M.OutOfBounds as ex:
        problems.append(str(ex))
    want_new = None if missing else NEW
    got = [text(x.get('name')) if x.get('kind') == 'name' else x.get('kind') for x in r_top] + [text(x['name']) for x in r_x] + [text(c_['name']) for c_ in cells]
    exp = [want_new or 'old', 'oldx', 'ol', 'cell', 'raw', want_new or 'old', want_new or 'old', 'top', want_new or 'old', 'oldx']
    if got != exp:
        problems.append('after rename_cell(%s, "%s") the by-name references / cell names read %s, expected %s' % ('"old"' if by_name else 'cell `old`', NEW, got, exp))
    if r_top[3].get('cell') is not renamed or 'name' in r_top[3]:
        problems.append('the by-pointer reference was rewritten')
    return problems


def check_rename(ctx, db):
    fs = db.fn('gdstk::Library::rename_cell', all=True)
    byp = {f.params[0]['t']: f for f in fs}
    f = byp.get('gdstk::Cell *') or byp.get('Cell *')
    g = next((x for x in fs if x is not f), None)
    if f is None or g is None:
        raise AnalysisBroken('rename_cell overloads not found')
    ctx.touch(f)
    ctx.touch(g)
    label = 'rename_cell(Cell*)'
    # decided by interpretation (rename_model): every by-name reference whose name equals the old name in full - and nothing else -
    # reads the new name afterwards, the cell itself is renamed, by-pointer and raw references are left alone and never compared as
    # strings, the copy is of strlen(new) + 1 bytes into a block of that size; by name: the cell is looked up and nothing happens
    # when it does not exist
    for key, kw, fn_, what in ((label + '/by-name-references', dict(by_name=False), f, 'by-name references equal (full strcmp) to the old name are rewritten to the new name, the cell is renamed, nothing else changes'),
                               ('rename_cell(name)/delegates', dict(by_name=True), g, 'rename by name resolves the cell and renames it'),
                               ('rename_cell(name)/missing', dict(by_name=True, missing=True), g, 'rename by name of a cell that does not exist changes nothing'),
                               (label + '/shorter-new-name', dict(by_name=False, new_name='n'), f, 'a new name shorter than the old one: still only the references equal in full to the old name are rewritten')):
        pr = rename_model(db, **kw)
        ctx.explored['valuations'] += 1
        ctx.check(not pr, 'R-MODEL.rename', key, fn_.loc(), what, '; '.join(pr[:2]))


def check_dependencies(ctx, db):
    for qn, member, tag, rec in (('gdstk::Cell::get_dependencies', 'cell', 'Cell', 'gdstk::Cell::get_dependencies'),
                                 ('gdstk::Cell::get_raw_dependencies', 'rawcell', 'RawCell', 'gdstk::RawCell::get_dependencies'),
                                 ('gdstk::RawCell::get_dependencies', None, None, 'gdstk::RawCell::get_dependencies')):
        f = db.fn(qn)
        ctx.touch(f)
        ren = clone.Renamer(f, params_by_name=True)
        sets = [c for c in f.walk() if c.k == 'CXXMemberCallExpr' and (c.callee or '').endswith('::set')]
        recs = [c for c in f.walk() if c.k == 'CXXMemberCallExpr' and c.callee == rec]
        ok = len(sets) == 1 and len(recs) >= 1
        why = ''
        if ok:
            st = sets[0]
            tgt = st.args[1].text(ren)
            ok = norm(st.args[0].text(ren)) == tgt + '->name'
            r = recs[0]
            # conditions under which the recursion / the recording run, whatever mix of `&&`, nesting and guard clauses spells them
            def conj(node):
                out = set()

                def split(c, pol):
                    c0 = _strip_casts(c)
                    while c0 is not None and c0.k == 'ParenExpr':
                        c0 = _strip_casts(c0.c[0])
                    if c0 is not None and c0.k == 'UnaryOperator' and c0.op == '!':
                        return split(c0.child('sub'), not pol)
                    if c0 is not None and c0.k == 'BinaryOperator' and ((c0.op == '&&' and pol) or (c0.op == '||' and not pol)):
                        split(c0.child('lhs'), pol)
                        split(c0.child('rhs'), pol)
                        return
                    t = norm(c0.text(ren)) if c0 is not None else ''
                    if c0 is not None and c0.k == 'BinaryOperator' and c0.op == '==':
                        t, pol = norm(c0.text(ren)).replace(' == ', ' != ', 1), not pol
                    out.add((t.strip('()') if t.startswith('(') and t.endswith(')') and t.count('(') == t.count(')') and not t.startswith('($result.get(') else t, pol))
                for c, pol in tables.path_conds(node):
                    split(c, pol)
                return out
            gc = conj(r)
            need = {('$recursive', True), ('($result.get(%s->name) != %s)' % (tgt, tgt), True)}
            flat = {(t.strip('()'), p_) for t, p_ in gc}
            ok = ok and {(t.strip('()'), p_) for t, p_ in need} <= flat and lvalue_key(r.child('obj')) == lvalue_key(st.args[1]) and norm(r.args[0].text()) == 'true'
            # the set is always recorded: neither the recursion flag nor the already-collected test decides it
            sc = conj(st)
            ok = ok and not any('$recursive' in t or '$result.get(' in t for t, _ in sc)
            why = 'the recursion runs under %s, the recording under %s' % (sorted(gc), sorted(sc))
        ctx.check(ok, 'R-SHAPE', qn + '/guarded-recursion', f.loc(), 'recurses only when the map does not already hold this pointer, and always records the target under its name', 'dependency collector shape differs: ' + why)
        lp = next((l for l in f.walk() if l.k == 'ForStmt'), None)
        arr = 'this->dependencies' if member is None else 'this->reference_array'
        ok = lp is not None and norm(lp.child('cond').text(ren)).endswith('< %s.count)' % arr)
        ctx.check(ok, 'R-AGG', qn + '/all-references', f.loc(), 'iterates over all of %s' % arr)
    f = db.fn('gdstk::Cell::get_raw_dependencies')
    # the recursion through referenced cells runs exactly under (recursive, reference type == Cell), however the dispatch is written
    cellv = tables.enum_values(db, 'gdstk::ReferenceType').get('Cell')
    rk = 'v%d:%s' % (f.params[0]['d'], f.params[0]['n'])
    recs = [c for c in f.walk() if c.k == 'CXXMemberCallExpr' and (c.callee or '') == 'gdstk::Cell::get_raw_dependencies']
    ok = len(recs) == 1 and _strip_casts(recs[0].args[0]).k == 'CXXBoolLiteralExpr' and bool(_strip_casts(recs[0].args[0]).v)
    if ok:
        at = tables.path_atoms(recs[0])
        obj = _strip_casts(recs[0].child('obj'))
        base = lvalue_key(_strip_casts(obj.child('base'))) if obj.k == 'MemberExpr' and obj.n == 'cell' else None
        need = {('true', rk, True), ('eq', base + '->type', cellv, True)} if base is not None else None
        # anything else on the path may only exclude other values of the same tag (the `else` of an earlier arm)
        ok = need is not None and need <= set(at) and all(a[0] == 'eq' and a[1] == base + '->type' and a[3] is False for a in set(at) - need)
    ctx.check(ok, 'R-SHAPE', 'gdstk::Cell::get_raw_dependencies/through-cells', f.loc(), 'raw dependencies are also gathered through referenced cells when recursive')


def check_top_level(ctx, db):
    f = db.fn('gdstk::Library::top_level')
    ctx.touch(f)
    ren = clone.Renamer(f, params_by_name=True)
    t = norm(clone.canon(f.body, f, ren=ren))
    calls = [(norm(c.text(ren))) for c in f.walk() if c.k == 'CXXMemberCallExpr' and 'dependencies' in (c.callee or '')]
    ok = len(calls) == 3 and any('get_raw_dependencies' in c for c in calls) and any('->get_dependencies(' in c and 'cell_deps' not in c.split('(')[0] for c in calls)
    ctx.check(ok, 'R-AGG', 'top_level/gathers-direct-dependencies', f.loc(), 'dependencies of every cell (cell + raw) and of every raw cell are gathered (recursive or not: the transitive set adds no cell that is not some cell\'s direct dependency)', 'top_level dependency gathering differs: %s' % calls)
    loops = [l for l in f.walk() if l.k == 'ForStmt']
    conds = [norm(l.child('cond').text(ren)) for l in loops]
    ok = len(loops) == 4 and sum(1 for c in conds if c.endswith('< this->cell_array.count)')) == 2 and sum(1 for c in conds if c.endswith('< this->rawcell_array.count)')) == 2
    ctx.check(ok, 'R-AGG', 'top_level/all-cells-and-rawcells', f.loc(), 'both passes run over all cells and all raw cells')
    # from path conditions (if / guard clause + continue, either operand order, == or !=): each output array receives the cell exactly when
    # the dependency map looked up under the cell's own name does not return that very cell
    apps = [c for c in f.walk() if c.k == 'CXXMemberCallExpr' and (c.callee or '').endswith('::append') and _strip_casts(c.child('obj')).k == 'DeclRefExpr' and _strip_casts(c.child('obj')).dk == 'param']
    ok = len(apps) == 2 and {_strip_casts(c.child('obj')).n for c in apps} == {p_['n'] for p_ in f.params}
    for c in apps:
        lp_ = next((a for a in c.ancestors() if a.k in ('ForStmt', 'WhileStmt', 'DoStmt')), None)
        pcs = tables.path_conds(c, stop=lp_)
        item = norm(c.args[0].text(ren)) if c.args else None
        good = lp_ is not None and len(pcs) == 1 and item is not None
        if good:
            cnd, pol = pcs[0]
            cnd = _strip_casts(cnd)
            good = cnd.k == 'BinaryOperator' and cnd.op in ('==', '!=') and (cnd.op == '!=') == pol
            if good:
                sides = [norm(cnd.child('lhs').text(ren)), norm(cnd.child('rhs').text(ren))]
                good = item in sides and any(x.endswith('_deps.get(%s->name)' % item) or x.endswith('.get(%s->name)' % item) for x in sides if x != item)
        ok = ok and good
    ctx.check(ok, 'R-SHAPE', 'top_level/keeps-unreferenced', f.loc(), 'a cell is top-level iff the dependency map does not hold that very cell under its name')


def check_tag_aggregators(ctx, db):
    want = {'gdstk::Cell::remap_tags': ['polygon_array', 'flexpath_array', 'robustpath_array', 'label_array'],
            'gdstk::Cell::get_shape_tags': ['polygon_array', 'flexpath_array', 'robustpath_array'],
            'gdstk::Cell::get_label_tags': ['label_array']}
    for qn, arrs in want.items():
        f = db.fn(qn)
        ctx.touch(f)
        loops = [l for l in f.body.c if l is not None and l.k == 'ForStmt']
        got = []
        for l in loops:
            m = re.search(r'< this->(\w+_array)\.count', norm(l.child('cond').text()))
            got.append(m.group(1) if m else '?')
        ctx.check(sorted(got) == sorted(arrs), 'R-AGG', qn + '/element-kinds', f.loc(), 'visits exactly the tagged element arrays %s' % arrs, 'visits %s, expected %s' % (got, arrs))
        # paths: inner loop over num_elements
        for l in loops:
            if 'path_array' in norm(l.child('cond').text()):
                inner = next((x for x in l.child('body').walk() if x.k == 'ForStmt'), None)
                ok = inner is not None and norm(inner.child('cond').text()).endswith('->num_elements)')
                ctx.check(ok, 'R-AGG', qn + '/all-path-elements@%d' % l.id, l.loc(), 'every element of a multi-element path is visited')
        if qn.endswith('remap_tags'):
            st = [x for x in f.walk() if is_assign(x) and norm(x.child('lhs').text()).endswith('tag')]
            ok = len(st) == 4 and all(norm(x.child('rhs').text()) == '%s.get(%s)' % ('map', norm(x.child('lhs').text())) for x in st)
            ctx.check(ok, 'R-SHAPE', qn + '/tag=map.get(tag)', f.loc(), 'each tag is replaced by the map\'s image of that same tag')
    for qn in ('gdstk::Library::get_shape_tags', 'gdstk::Library::get_label_tags', 'gdstk::Library::remap_tags'):
        fs = db.fn(qn, required=False, all=True)
        for f in fs:
            l = next((x for x in f.walk() if x.k == 'ForStmt'), None)
            ok = l is not None and norm(l.child('cond').text()).endswith('< this->cell_array.count)')
            ctx.check(ok, 'R-AGG', qn + '/all-cells', f.loc(), 'iterates over all cells of the library')


def check_deep_copy(ctx, db):
    f = db.fn('gdstk::Library::copy_from')
    ctx.touch(f)
    deep = next((i for i in f.body.c if i is not None and i.k == 'IfStmt' and i.child('cond').text() == 'deep_copy'), None)
    if deep is None:
        raise AnalysisBroken('Library::copy_from: deep_copy branch not found')
    st = [x for x in deep.child('then').walk() if is_assign(x) and norm(x.child('lhs').text()).endswith('->cell')]
    ok = len(st) >= 1 and any('this->cell_array[' in norm(x.child('rhs').text()) for x in st)
    ctx.check(ok, 'R-REMAP', 'gdstk::Library::copy_from/deep-remaps-references', f.loc(), 'in the deep branch Cell references of the copied cells are re-pointed at cells of the copy',
              'a deep copy leaves the copied references pointing at the source library\'s cells (no store of this->cell_array[...] into reference->cell)')


    # the copy's cell array is read at an arbitrary index (the source position of the referenced cell): every slot must have been
    # filled before - no path leads from the re-pointing store back to the store that fills a slot of the array
    g = f.cfg
    fills = [x for x in deep.child('then').walk() if is_assign(x) and any(c.k == 'CallExpr' and (c.callee or '').split('::')[-1] in ('allocate', 'allocate_clear') for c in x.child('rhs').walk())
             and 'Cell *' in ((x.child('lhs').t or '') + (x.child('lhs').ct or '')) and 'Cell **' not in (x.child('lhs').t or '')]
    remaps = [x for x in st if 'this->cell_array[' in norm(x.child('rhs').text())]
    if not fills or not remaps:
        raise AnalysisBroken('Library::copy_from: slot-filling store (%d) / re-pointing store (%d) not found' % (len(fills), len(remaps)))
    bad = None
    for x in remaps:
        for y in fills:
            wx, wy = g.where_node(x), g.where_node(y)
            if wx is None or wy is None:
                raise AnalysisBroken('Library::copy_from: statement not located in the CFG')
            if g.path_avoiding(wx, lambda b, i, nid, wy=wy: (b, i) == wy, lambda b, i, nid: False):
                bad = (x, y)
    ctx.check(bad is None, 'R-ORDER', 'gdstk::Library::copy_from/remap-after-all-copies', f.loc(), 'references are re-pointed only after every cell of the copy exists (no path from the re-pointing store back to a slot-filling store)',
              'the re-pointing at %s reads this->cell_array[index] while later slots are still being filled at %s: a cell stored before the cell it references gets an uninitialised pointer' % ((bad[0].loc(), bad[1].loc()) if bad else ('', '')))


def run(ctx):
    db = ctx.db
    n = 0
    for qn in TAG_FUNCS:
        for f in db.fn(qn, all=True):
            ctx.touch(f)
            n += tagunion.check_function(ctx, f)
    ctx.require('R-TAGUNION member accesses', n, 60)
    ctx.attempt(check_replace, ctx, db)
    ctx.attempt(check_rename, ctx, db)
    ctx.attempt(check_replace_model, ctx, db)
    ctx.attempt(check_dependencies, ctx, db)
    ctx.attempt(check_top_level, ctx, db)
    ctx.attempt(check_tag_aggregators, ctx, db)
    ctx.attempt(check_deep_copy, ctx, db)
    from .. import parallel
    nc = 0
    for f in db.functions:
        if f.body is not None and f.relfile() in ('src/cell.cpp', 'src/library.cpp'):
            k = parallel.check_cursors(ctx, f)
            if k:
                ctx.touch(f)
            nc += k
    ctx.require('R-PARALLEL element cursors', nc, 40)
    from . import C20   # tag queries collect into Set<Tag>, remapping goes through TagMap: the table obligations are C20's, shared
    ctx.memo('tables', C20.TABLE_FILES, C20.check_tables, db)
    # copies made by Library::copy_from / Cell::copy_from go through the element copy_from methods: none of them may read a field
    # of the destination before writing it (e.g. the destination's own reference tag)
    from .. import copyrule
    ncp = 0
    for f in db.functions:
        if f.name == 'copy_from' and f.body is not None and (f.relfile().startswith('src/') or f.relfile().startswith('include/gdstk/')) and not f.targs:
            ctx.touch(f)
            ncp += copyrule.check_destination_reads(ctx, f, label='%s::copy_from' % (f.rec or '?').replace('gdstk::', ''))
    ctx.require('R-COPY.read-before-write copy_from methods', ncp, 15)


MANIFEST = dict(
    text='Decides structural necessary conditions of library edits for all references and kinds: tagged-union discipline on every Reference member access in the edit/query functions; the rewrite table (arm -> match condition, stores, container update) of each of the four replace_cell overloads and of rename_cell equals the table derived from its signature (pointer match for the old kind, full strcmp on names otherwise, tag stored before the member when the kind changes, name reallocated and copied with 1+strlen(new_name)); every overload visits all cells x all references x all three reference kinds; top_level keeps exactly the cells the direct-dependency maps do not hold; dependency collectors guard recursion by pointer identity and always record the target; tag aggregators visit every tagged element kind and every path element; a deep library copy re-points references into the copy; every element cursor (pointer set to an array start) that a loop of cell.cpp/library.cpp dereferences moves in that loop. Equivalence with an abstract graph model over operation sequences is not decided. Library::rename_cell (both overloads) is decided by interpretation on a three-cell library (R-MODEL.rename): exactly the by-name references equal in full to the old name are rewritten, the cell is renamed, by-pointer and raw references are never compared as strings, the copy fits the block. Library::replace_cell (four overloads x new/same name x in/not in the library) is decided by interpretation on a small library (R-MODEL.replace); the tables read off its switch arms are advisory.',
    note='Trusted: clang front end, gx, sa rules. The expected tables are computed from parameter types (kind(old), kind(new)), not frozen text; conditions are compared after cast normalisation. Readers\' by-name resolution at ENDLIB/END is deliberately not an instance.',
    technique='tagged-union typestate over the AST (constraint intersection) + table extraction from switch arms compared with a signature-derived specification + explicit-state model of the name/tag hash tables by interpretation of their source (shared with C20) + interpretation of rename_cell on a small library (sa/minieval)',
    design='§4 C16')
