"""C17 — partial/alternative readers vs the full reader: sibling record tables, unit formulas,
header-writer clones, raw-cell byte accounting and release protocol, timestamp constants, tag filter."""
import re
from .. import flow, tables, clone
from ..facts import AnalysisBroken
from ..flow import lvalue_key, is_assign, _strip_casts

EXPLANATION = ('R-TABLE (siblings): the record sets that open a polygon/path/reference/label and that carry the layer/type of an '
               'element are extracted from read_gds (arms that allocate the element / call set_layer, set_type) and from gds_info '
               '(arms that count the element / add the tag) and must be equal, with the same element -> tag-set routing. The UNITS '
               'formulas of gds_units, gds_info and read_gds normalise to the same expressions over the two 8-byte reals. R-CLONE: '
               'the header block of Library::write_gds equals gdswriter_init\'s and GdsWriter::close equals the ENDLIB tail; the BGNLIB '
               'and BGNSTR timestamp rewrites are clones; the polygon and path tag-filter blocks at ENDEL are clones. R-CONST: '
               'record length 28 = 4 + 2*12, seek -24 = -2*12, 12 words written. R-AGG: every non-ENDLIB arm of read_rawcells accounts '
               'record_length into the open raw cell; offset = ftell - record_length at BGNSTR; RawCell::to_gds reads and writes exactly '
               '`size` bytes at `offset`. R-PAIR: after releasing its share of the RawSource a raw cell clears its `source` pointer '
               'unconditionally. Equality of loaded libraries / bytes is not decided.')
ASSUMPTIONS = ['enum GdsiiRecord values are those of the format (checked in C03)']
XREF_FILES = ['src/library.cpp', 'src/rawcell.cpp']


# decided by R-MODEL.header (the bytes both writers emit, against the format); the spelling comparison of the two writers is evidence only
ADVISORY = [('R-CLONE', r'^gds-header/'), ('R-CLONE', r'^gds-trailer/')]


def norm(t):
    return re.sub(r'<[A-Za-z]+:(?!:)[^>]*>', '', t).replace('gdstk::', '')


def record_switch(fn):
    """the switch over (GdsiiRecord)buffer[2]"""
    best = None
    for s in fn.walk():
        if s.k == 'SwitchStmt' and 'buffer[2]' in s.child('cond').text() and 'GdsiiRecord' in (s.child('cond').t or '') + s.child('cond').text():
            best = best or s
    return best


def rec_names(db):
    return {c['v']: c['n'] for c in db.enum('gdstk::GdsiiRecord')['consts']}


def check_sibling_tables(ctx, db):
    rg, gi = db.fn('gdstk::read_gds'), db.fn('gdstk::gds_info')
    ctx.touch(rg)
    ctx.touch(gi)
    names = rec_names(db)
    swr, swi = record_switch(rg), record_switch(gi)
    if swr is None or swi is None:
        raise AnalysisBroken('record switch not found in read_gds / gds_info')
    full = {}      # element kind -> records opening it
    full_tag = {}  # 'type'/'layer' -> {records}
    for labels, stmts, top in tables.switch_arms(swr):
        recs = {names.get(l, str(l)) for l in labels if l != 'default'}
        for s in stmts:
            for x in s.walk():
                if is_assign(x) and x.op == '=' and x.child('lhs').k == 'DeclRefExpr' and x.child('lhs').n in ('polygon', 'path', 'reference', 'label') and 'allocate_clear' in x.child('rhs').text():
                    full.setdefault(x.child('lhs').n, set()).update(recs)
                if x.k == 'CallExpr' and x.callee in ('gdstk::set_type', 'gdstk::set_layer'):
                    tgt = norm(x.args[0].text()).split('->')[0]
                    full_tag.setdefault((x.callee.split('_')[-1], tgt), set()).update(recs)
    info = {}
    info_tag = set()
    info_layer = set()
    routing = {}
    for labels, stmts, top in tables.switch_arms(swi):
        recs = {names.get(l, str(l)) for l in labels if l != 'default'}
        for s in stmts:
            for x in s.walk():
                if x.k == 'UnaryOperator' and x.op in ('post++', '++') and x.child('sub').k == 'MemberExpr' and x.child('sub').n.startswith('num_'):
                    kind = {'num_polygons': 'polygon', 'num_paths': 'path', 'num_references': 'reference', 'num_labels': 'label'}.get(x.child('sub').n)
                    info.setdefault(kind, set()).update(recs)
                    ns = next((a for s2 in stmts for a in s2.walk() if is_assign(a) and a.child('lhs').k == 'DeclRefExpr' and a.child('lhs').n == 'next_set'), None)
                    routing[kind] = norm(ns.child('rhs').text()) if ns is not None else None
                if x.k == 'CXXMemberCallExpr' and (x.callee or '').endswith('::add') and 'make_tag' in x.text():
                    info_tag.update(recs)
                if is_assign(x) and x.child('lhs').k == 'DeclRefExpr' and x.child('lhs').n == 'layer':
                    info_layer.update(recs)
    for kind in ('polygon', 'path', 'reference', 'label'):
        ctx.check(full.get(kind) == info.get(kind) and bool(full.get(kind)), 'R-TABLE', 'opens:%s' % kind, swi.loc(),
                  'records opening a %s agree: %s' % (kind, sorted(full.get(kind, []))),
                  'records that open a %s: read_gds %s vs gds_info %s — the summary miscounts what a full load finds' % (kind, sorted(full.get(kind, [])), sorted(info.get(kind, []))))
    full_types = set().union(*[v for (w, t), v in full_tag.items() if w == 'type']) if full_tag else set()
    full_layers = set().union(*[v for (w, t), v in full_tag.items() if w == 'layer']) if full_tag else set()
    ctx.check(full_types == info_tag and bool(info_tag), 'R-TABLE', 'tag-records:type', swi.loc(), 'records carrying an element type agree: %s' % sorted(full_types),
              'type-carrying records: read_gds %s vs gds_info %s — tags in use differ from a full load' % (sorted(full_types), sorted(info_tag)))
    ctx.check(full_layers == info_layer and bool(info_layer), 'R-TABLE', 'tag-records:layer', swi.loc(), 'records carrying a layer agree: %s' % sorted(full_layers))
    want_route = {'polygon': '(&info.shape_tags)', 'path': '(&info.shape_tags)', 'label': '(&info.label_tags)', 'reference': 'NULL'}
    ctx.check(routing == want_route, 'R-TABLE', 'tag-routing', swi.loc(), 'polygons and paths feed shape_tags, labels feed label_tags, references none', 'tag routing differs: %s' % routing)
    # read_gds: which element kinds take a type from which record (BOXTYPE/DATATYPE -> polygon|path; TEXTTYPE -> label)
    tt = {t: sorted(v) for (w, t), v in full_tag.items() if w == 'type'}
    ctx.check(tt == {'polygon': ['BOXTYPE', 'DATATYPE'], 'path': ['BOXTYPE', 'DATATYPE'], 'label': ['TEXTTYPE']}, 'R-TABLE', 'read_gds/type-targets', swr.loc(), 'DATATYPE/BOXTYPE set polygon|path types, TEXTTYPE sets label types', 'type targets: %s' % tt)


def resolve(fn, e, depth=0):
    """inline single-initialiser locals, print normalised"""
    e = _strip_casts(e)
    if e is None or depth > 6:
        return '?'
    if e.k == 'DeclRefExpr' and e.dk == 'local':
        for v in fn.walk():
            if v.k == 'VarDecl' and v.d == e.d and v.child('init') is not None and (v.t or '').startswith('const'):
                return resolve(fn, v.child('init'), depth + 1)
        return e.n
    if e.k == 'BinaryOperator':
        return '(%s %s %s)' % (resolve(fn, e.child('lhs'), depth + 1), e.op, resolve(fn, e.child('rhs'), depth + 1))
    if e.k == 'CallExpr':
        return '%s(%s)' % ((e.callee or '?').split('::')[-1], ', '.join(resolve(fn, a, depth + 1) for a in e.args))
    if e.k == 'ArraySubscriptExpr':
        return '%s[%s]' % (resolve(fn, e.child('base'), depth + 1), resolve(fn, e.child('idx'), depth + 1))
    return norm(e.text())


def check_units(ctx, db):
    R0, R1 = 'gdsii_real_to_double(data64[0])', 'gdsii_real_to_double(data64[1])'
    for qn, pfx in (('gdstk::gds_units', ''), ('gdstk::gds_info', 'info.')):
        f = db.fn(qn)
        ctx.touch(f)
        st = {norm(x.child('lhs').text()): x for x in f.walk() if is_assign(x) and norm(x.child('lhs').text()) in (pfx + 'precision', pfx + 'unit')}
        ok = len(st) == 2 and resolve(f, st[pfx + 'precision'].child('rhs')) == R1 and resolve(f, st[pfx + 'unit'].child('rhs')) in ('(%sprecision / %s)' % (pfx, R0), '(%s / %s)' % (R1, R0))
        ok = ok and st[pfx + 'precision'].pos < st[pfx + 'unit'].pos
        ctx.check(ok, 'R-CLONE', qn + '/units-formula', f.loc(), 'precision = real[1]; unit = precision / real[0]',
                  'UNITS formula differs: %s' % {k: resolve(f, v.child('rhs')) for k, v in st.items()})
        sw = [c for c in f.calls('gdstk::big_endian_swap64')]
        ctx.check(len(sw) == 1 and all(sw[0].pos < x.pos for x in st.values()), 'R-PAIRCALL', qn + '/swap-before-decode', f.loc(), 'the two reals are byte-swapped before they are decoded')
    f = db.fn('gdstk::read_gds')
    st = [x for x in f.walk() if is_assign(x) and norm(x.child('lhs').text()) in ('library.precision', 'library.unit', 'factor')]
    got = sorted((norm(x.child('lhs').text()), resolve(f, x.child('rhs'))) for x in st)
    want = sorted([('factor', '(%s / unit)' % R1), ('library.unit', 'unit'), ('factor', R0), ('library.unit', '(%s / %s)' % (R1, R0)), ('library.precision', R1)])
    ctx.check(got == want, 'R-CLONE', 'gdstk::read_gds/units-formula', f.loc(), 'native: unit = real[1]/real[0], precision = real[1], factor = real[0]; with a target unit: factor = real[1]/unit',
              'read_gds UNITS handling differs: %s' % got)


HDR_SUBST = [(r'gdstk::', ''), (r'<[A-Za-z]+:(?!:)[^>]*>', ''), (r'\$result\.timestamp\.', 'TS.'), (r'\$timestamp->', 'TS.'), (r'\$result\.out', 'OUT'), (r'\$out\b', 'OUT'), (r'this->out\b', 'OUT'),
             (r'\$library_name', 'NAME'), (r'this->name', 'NAME'), (r'this->(precision|unit)', r'\1'), (r'\$(precision|unit)', r'\1')]


def canon_stmts(fn, stmts):
    ren = clone.Renamer(fn, params_by_name=True)
    for v in fn.walk():
        if v.k == 'VarDecl' and v.n in ('result', 'out'):
            ren.map[v.d] = '$' + v.n
    hook, drop = clone.temps(fn, stmts, ren)     # named pure temporaries print as their initialisers
    txt = ''.join(clone.canon(s, fn, subst=HDR_SUBST, ren=ren, hook=hook, drop=drop) for s in stmts)
    order = []
    for m in re.finditer(r'\bv\d+\b', txt):
        if m.group(0) not in order:
            order.append(m.group(0))
    return re.sub(r'\bv\d+\b', lambda m: 'w%d' % order.index(m.group(0)), txt)


def check_header_clones(ctx, db):
    wg, gi, cl = db.fn('gdstk::Library::write_gds'), db.fn('gdstk::gdswriter_init'), db.fn('gdstk::GdsWriter::close')
    for f in (wg, gi, cl):
        ctx.touch(f)

    def between(f, first_pred, last_pred):
        ss = [s for s in f.body.c if s is not None]
        i = next(k for k, s in enumerate(ss) if first_pred(s))
        j = max(k for k, s in enumerate(ss) if last_pred(s))
        return ss[i:j + 1]
    is_len = lambda s: s.k == 'DeclStmt' and any(v is not None and v.n == 'len' for v in s.c)
    is_units_write = lambda s: s.k == 'CallExpr' and s.callee == 'fwrite' and 'units' in s.args[0].text() and 'buffer' not in s.args[0].text()
    # what is compared is what is emitted: the declarations (length, header words, units) and the swap / fwrite calls. How the
    # name length is rounded up to even (`if (len % 2) len++`, `len += len % 2`) is C03's parity obligation, not a clone property.
    # (the declaration of the padded length itself - `len = strlen(name); if (len % 2) len++;`, `len = n % 2 ? n + 1 : n` - is
    # left out with it: that it is strlen(name) rounded up to even is decided by C03's record/parity interpretation of both functions)
    emits = lambda ss: [s_ for s_ in ss if s_.k in ('DeclStmt', 'CallExpr') and not is_len(s_)]
    a = canon_stmts(wg, emits(between(wg, is_len, is_units_write)))
    b = canon_stmts(gi, emits(between(gi, is_len, is_units_write)))
    clone.check_family(ctx, 'R-CLONE', 'gds-header', [('Library::write_gds[header]', wg.loc(), a), ('gdswriter_init[header]', gi.loc(), b)], 2)
    is_end = lambda s: s.k == 'DeclStmt' and any(v is not None and v.n == 'buffer_end' for v in s.c)
    is_close = lambda s: s.k == 'CallExpr' and s.callee == 'fclose'
    a = canon_stmts(wg, between(wg, is_end, is_close))
    b = canon_stmts(cl, [s for s in cl.body.c if s is not None])
    clone.check_family(ctx, 'R-CLONE', 'gds-trailer', [('Library::write_gds[trailer]', wg.loc(), a), ('GdsWriter::close', cl.loc(), b)], 2)
    # write_cell passes unit / precision as scaling and precision, like write_gds
    wc = db.fn('gdstk::GdsWriter::write_cell')
    # what each writer hands to Cell::to_gds, evaluated (sa/minieval, exact rationals) for unit 1e-6, precision 1e-9, max_points 199
    from .. import minieval as _M
    from fractions import Fraction as _F

    def cell_args(fn, this):
        calls = [c for c in fn.walk() if c.k == 'CXXMemberCallExpr' and (c.callee or '') == 'gdstk::Cell::to_gds']
        if len(calls) != 1:
            raise AnalysisBroken('%s: exactly one call of Cell::to_gds expected' % fn.qn)
        out = []
        for a_ in calls[0].args[1:4]:
            out.append(_M.value_at(db, a_, members={'this->unit': this['unit'], 'this->precision': this['precision'], 'this->max_points': this['max_points'], 'unit': this['unit'], 'precision': this['precision']},
                                   env0={'max_points': this['max_points'], 'this': this}, obj_store=True))
        return out
    this_ = _M.Obj(unit=_F(1, 10 ** 6), precision=_F(1, 10 ** 9), max_points=199)
    try:
        got_w, got_l = cell_args(wc, this_), cell_args(wg, this_)
    except AnalysisBroken as ex:
        got_w, got_l = str(ex), None
    ok = got_w == [_F(1000), 199, _F(1, 10 ** 9)] and got_l == got_w
    ctx.check(ok, 'R-CLONE', 'gds-cell-scaling', wc.loc(), 'both writers hand cells scaling = unit / precision, their max_points and the same precision', 'for unit 1e-6, precision 1e-9, max_points 199: GdsWriter::write_cell hands over %s, Library::write_gds %s' % (got_w, got_l))


def header_bytes(db, which, name, ts):
    """Library::write_gds on a library without cells (`which` = 'library'), or gdswriter_init followed by GdsWriter::close
    ('writer'), interpreted (sa/minieval, C integer widths, little-endian host): fopen / fwrite / fclose are answered by the harness,
    which collects the bytes written; gdsii_real_from_double is answered by a token that depends on its argument only (the encoder
    itself is decided by C19). Returns (bytes written, number of fclose calls, files opened)."""
    from .. import minieval as M
    from fractions import Fraction
    files = []

    def tok(v):
        v = Fraction(v)
        return 0x4000000000000000 | ((v.numerator * 1000003 + v.denominator * 7919) & 0xFFFFFFFFFFFF)

    def extra(callee, args, node):
        c = callee or ''
        short = c.split('::')[-1]
        if short == 'fopen':
            h = M.Obj(file=True, data=bytearray(), closed=0)
            files.append(h)
            return (h,)
        if short == 'fclose':
            args[0]['closed'] += 1
            return (0,)
        if short == 'strlen':
            return (len(args[0]),)
        if short == 'gdsii_real_from_double':
            return (tok(args[0]),)
        if short == 'fwrite':
            ptr, size, count, out = args
            size, count = int(size), int(count)
            if not isinstance(out, M.Obj) or not out.get('file') or out['closed']:
                raise M.OutOfBounds('fwrite to something that is not an open file at %s' % node.loc())
            if isinstance(ptr, str):
                if size * count > len(ptr) + 1:
                    raise M.OutOfBounds('fwrite of %d bytes from a string of %d characters at %s' % (size * count, len(ptr), node.loc()))
                out['data'] += (ptr.encode() + b'\0')[:size * count]
            else:
                if ptr.i + count > len(ptr.arr):
                    raise M.OutOfBounds('fwrite of %d elements from an array of %d at %s' % (count, len(ptr.arr) - ptr.i, node.loc()))
                for k_ in range(count):
                    out['data'] += int(ptr.arr[ptr.i + k_]).to_bytes(size, 'little')
            return (count,)
        return None
    ref = [None]
    mi = M.Mini(db, hook=M.array_hook(ref, extra), budget=300000, c_ints=True, globals={'error_logger': 0})
    mi.obj_store = True
    ref[0] = mi
    unit, precision = Fraction(1, 10 ** 6), Fraction(1, 10 ** 9)

    def call(f, env):
        try:
            mi.run(f.body, env)
        except M.Return as r:
            return r.v
        return None
    if which == 'library':
        f = db.fn('gdstk::Library::write_gds')
        empty = lambda: M.Obj(items=0, count=0, capacity=0)
        this = M.Obj(name=name, unit=unit, precision=precision, cell_array=empty(), rawcell_array=empty())
        vals = {'filename': 'out.gds', 'max_points': 199, 'timestamp': M.Obj(**ts)}
        call(f, dict({'this': this}, **{p['n']: vals[p['n']] for p in f.params}))
    else:
        f = db.fn('gdstk::gdswriter_init')
        vals = {'filename': 'out.gds', 'library_name': name, 'unit': unit, 'precision': precision, 'max_points': 199, 'timestamp': M.Obj(**ts), 'error_code': 0}
        w = call(f, {p['n']: vals[p['n']] for p in f.params})
        if not isinstance(w, M.Obj):
            raise AnalysisBroken('gdswriter_init: no writer object returned')
        call(db.fn('gdstk::GdsWriter::close'), {'this': w})
    return (bytes(files[0]['data']) if files else b''), (files[0]['closed'] if files else 0), len(files), unit, precision, tok


def check_header_bytes(ctx, db):
    """R-MODEL.header: the bytes both GDSII writers put around the cells, against the format: HEADER (version 600), BGNLIB with the
    time stamp twice (year + 1900, month + 1), LIBNAME padded with NUL to even length, UNITS with real(precision / unit) and
    real(precision), ENDLIB - big-endian throughout - then the file is closed once. Library::write_gds on a library without cells
    and gdswriter_init + GdsWriter::close must both give exactly these bytes (hence the same bytes), for names of odd and even
    length. Whatever statements, buffers and helpers produce them."""
    import struct
    from ..minieval import OutOfBounds
    ts = dict(tm_year=126, tm_mon=9, tm_mday=3, tm_hour=17, tm_min=5, tm_sec=59, tm_wday=6, tm_yday=275, tm_isdst=0)
    n = 0
    for which, fq in (('library', 'gdstk::Library::write_gds'), ('writer', 'gdstk::gdswriter_init')):
        f = db.fn(fq)
        ctx.touch(f)
        for name in ('LIB', 'LIBR', 'L', 'library'):
            n += 1
            why = None
            try:
                data, closed, nfiles, unit, precision, tok = header_bytes(db, which, name, ts)
            except OutOfBounds as ex:
                data, why = b'', str(ex)
            if why is None:
                stamp = struct.pack('>6H', 2026, 10, 3, 17, 5, 59)
                padded = name.encode() + (b'\0' if len(name) % 2 else b'')
                want = struct.pack('>3H', 6, 0x0002, 600) + struct.pack('>2H', 28, 0x0102) + stamp + stamp + struct.pack('>2H', 4 + len(padded), 0x0206) + padded \
                    + struct.pack('>2H', 20, 0x0305) + struct.pack('>2Q', tok(precision / unit), tok(precision)) + struct.pack('>2H', 4, 0x0400)
                if nfiles != 1 or closed != 1:
                    why = '%d file(s) opened, closed %d time(s)' % (nfiles, closed)
                elif data != want:
                    k_ = next((i for i in range(min(len(data), len(want))) if data[i] != want[i]), min(len(data), len(want)))
                    why = 'library name "%s": %d bytes written, the format has %d; first difference at byte %d (written %s, format %s)' % (name, len(data), len(want), k_, data[k_:k_ + 8].hex(), want[k_:k_ + 8].hex())
            ctx.check(why is None, 'R-MODEL.header', '%s/name=%s' % ('Library::write_gds' if which == 'library' else 'gdswriter_init+close', name), f.loc(),
                      'HEADER, BGNLIB, LIBNAME, UNITS and ENDLIB exactly as the format has them', why)
    ctx.explored['valuations'] += n
    ctx.require('R-MODEL.header writer runs', n, 8)


def check_rawcells(ctx, db):
    f = db.fn('gdstk::read_rawcells')
    ctx.touch(f)
    sw = next((s for s in f.walk() if s.k == 'SwitchStmt'), None)
    if sw is None:
        raise AnalysisBroken('read_rawcells: record switch not found')
    n = 0
    for labels, stmts, top in tables.switch_arms(sw):
        if 4 in labels:
            continue
        n += 1
        key = 'read_rawcells/arm:%s' % ','.join('0x%02x' % l if isinstance(l, int) else l for l in labels)
        acc = [x for s in stmts for x in s.walk() if is_assign(x) and norm(x.child('lhs').text()) == 'rawcell->size' and norm(x.child('rhs').text()) == 'record_length']
        ok = len(acc) == 1
        if ok and 5 not in labels:
            ok = acc[0].op == '+=' and any(a.k == 'IfStmt' and norm(a.child('cond').text()) == 'rawcell' for a in acc[0].ancestors())
        if ok and 5 in labels:
            ok = acc[0].op == '='
            off = next((x for s in stmts for x in s.walk() if is_assign(x) and norm(x.child('lhs').text()) == 'rawcell->offset'), None)
            ok = ok and off is not None and norm(off.child('rhs').text()) == '(ftell(source->file) - record_length)'
        ctx.check(ok, 'R-AGG', key, top.loc(), 'the record\'s length is accounted to the open raw cell (offset = ftell - record_length at BGNSTR)',
                  'this arm does not account record_length into rawcell->size (the copied raw cell would be short)')
    ctx.require('R-AGG read_rawcells arms', n, 5)
    t = db.fn('gdstk::RawCell::to_gds')
    ctx.touch(t)
    txt = norm(clone.canon(t.body, t, ren=clone.Renamer(t, params_by_name=True)))
    ok = 'uint64_t v1 = this->offset' in txt and '(this->data = (uint8_t *)allocate(this->size))' in txt and 'this->source->offset_read(this->data, this->size, v1)' in txt and 'fwrite(this->data, 1, this->size, $out)' in txt
    ctx.check(ok, 'R-SHAPE', 'RawCell::to_gds/size-bytes-at-offset', t.loc(), 'reads `size` bytes at `offset` from the source and writes exactly `size` bytes')
    # release protocol: uses-- diamond followed by unconditional `source = NULL` in the same block
    for qn in ('gdstk::RawCell::to_gds', 'gdstk::RawCell::clear'):
        g = db.fn(qn)
        dec = next((u for u in g.walk() if u.k == 'UnaryOperator' and u.op in ('post--', '--') and norm(u.child('sub').text()) == 'this->source->uses'), None)
        ok = dec is not None
        if ok:
            comp = dec.parent
            idx = comp.c.index(dec)
            rest = comp.c[idx + 1:]
            ok = len(rest) >= 2 and rest[0].k == 'IfStmt' and is_assign(rest[1]) and norm(rest[1].child('lhs').text()) == 'this->source' and rest[1].child('rhs').is_null_const()
        ctx.check(ok, 'R-PAIR', qn + '/source-cleared-after-release', g.loc(), 'after giving up its share of the RawSource the raw cell clears `source` on every path',
                  'after `source->uses--` the `source` pointer is not cleared unconditionally: a second write/clear of this raw cell releases the shared source again')


def check_timestamp(ctx, db):
    f = db.fn('gdstk::gds_timestamp')
    ctx.touch(f)
    # Rewrite sites (the fwrite of the new stamp; the site may sit in a file-local helper). For every site, from the conditions on
    # its path: the record length was tested against 28 = 4 + 2*12 with an error exit, the stream was moved back 24 = 2*12 bytes
    # from the current position with the failure branch leaving, and 12 two-byte words of new_tm_buffer are written. Which records
    # reach a site is decided by evaluating the path conditions for every GdsiiRecord enumerator and new_timestamp NULL / non-NULL:
    # exactly BGNLIB and BGNSTR of a rewriting run do (whether the two arms are written out twice, merged, or share a helper).
    from .. import minieval
    SEEKS = ('fseeko', 'fseek', '_fseeki64', 'fseeko64')
    sites = []            # (function, fwrite call, weight)
    for fn_, w_ in db.with_helpers([f]):
        for c in fn_.calls('fwrite'):
            sites.append((fn_, c, w_))
    bad = []
    if not sites:
        bad.append('no fwrite of the new timestamp found')
    for fn_, c, w_ in sites:
        if not (c.args[1].cv == 2 and c.args[2].cv == 12 and (norm(c.args[0].text()) == 'new_tm_buffer' or _strip_casts(c.args[0]).dk == 'param')):
            bad.append('%s: writes %s x %s from `%s` instead of 12 two-byte words of new_tm_buffer' % (c.loc(), c.args[1].cv, c.args[2].cv, norm(c.args[0].text())))
        pcs = tables.path_conds(c)
        seek = [(cnd, pol) for cnd, pol in pcs if any(x.k == 'CallExpr' and (x.callee or '') in SEEKS for x in cnd.walk())]
        sk = [x for cnd, pol in seek for x in cnd.walk() if x.k == 'CallExpr' and (x.callee or '') in SEEKS]
        if len(sk) != 1 or not (sk[0].args[1].cv == -24 and sk[0].args[2].cv == 1):
            bad.append('%s: the write is not preceded by exactly one checked seek of -24 bytes from the current position (found %s)' % (c.loc(), [(x.args[1].cv, x.args[2].cv) for x in sk]))
        else:
            cnd, pol = seek[0]
            cc = _strip_casts(cnd)
            if not (cc.k == 'BinaryOperator' and cc.op in ('!=', '==') and _strip_casts(cc.child('rhs')).cv == 0 and (cc.op == '!=') != pol):
                bad.append('%s: the write does not run under "seek returned 0"' % c.loc())
    # the length test, in the function that owns the record loop
    lens = [(cnd, pol) for fn_, c, w_ in sites for cnd, pol in (tables.path_conds(c) if fn_ is f else [])]
    if any(fn_ is not f for fn_, c, w_ in sites):
        for fn_, c, w_ in sites:
            if fn_ is not f:
                for call in f.walk():
                    if call.k == 'CallExpr' and call.callee == fn_.qn:
                        lens += tables.path_conds(call)
    def is_len28(cnd, pol):
        cc = _strip_casts(cnd)
        return cc.k == 'BinaryOperator' and cc.op in ('!=', '==') and norm(cc.child('lhs').text()) == 'record_length' and _strip_casts(cc.child('rhs')).cv == 28 and (cc.op == '==') == pol
    entry = []            # (entry node in f, conditions inside the record loop) per site
    def in_loop(node):
        lp_ = [a for a in node.ancestors() if a.k in ('WhileStmt', 'ForStmt', 'DoStmt')]
        return tables.path_conds(node, stop=lp_[-1]) if lp_ else tables.path_conds(node)
    for fn_, c, w_ in sites:
        if fn_ is f:
            entry.append((c, in_loop(c)))
        else:
            for call in f.walk():
                if call.k == 'CallExpr' and call.callee == fn_.qn:
                    entry.append((call, in_loop(call)))
    for node, pcs in entry:
        if not any(is_len28(cnd, pol) for cnd, pol in pcs):
            bad.append('%s: the rewrite runs without the record length having been tested against 28' % node.loc())
    # which records reach a rewrite site
    recs = {c_['n']: c_['v'] for c_ in db.enum('gdstk::GdsiiRecord')['consts']}
    reach = {}
    def hook(callee, args, node):
        if callee in SEEKS:
            return (0,)
        return None
    try:
        for name, val in recs.items():
            for nt in (0, 1):
                hit = False
                for node, pcs in entry:
                    okp = True
                    for cnd, pol in pcs:
                        v = minieval.value_at(db, cnd, typed={'GdsiiRecord': val, 'tm *': nt, 'uint64_t': 28, 'uint32_t': 28, 'ErrorCode': 0, 'FILE *': 1}, hook=hook)
                        if bool(v) != pol:
                            okp = False
                            break
                    hit = hit or okp
                if hit:
                    reach.setdefault(nt, set()).add(name)
    except AnalysisBroken as ex:
        bad.append('path conditions of the rewrite sites could not be evaluated (%s)' % ex)
    ctx.explored['valuations'] += 2 * len(recs) * max(1, len(entry))
    if not bad and (reach.get(1, set()) != {'BGNLIB', 'BGNSTR'} or reach.get(0, set())):
        bad.append('a rewriting run reaches the rewrite for %s (expected BGNLIB and BGNSTR), a query run for %s (expected none)' % (sorted(reach.get(1, set())), sorted(reach.get(0, set()))))
    ctx.check(not bad, 'R-CONST', 'gds_timestamp/28=4+2*12', f.loc(), '%d rewrite site(s): record length tested against 28, checked seek back of 24 = 12 words, 12 two-byte words written; reached exactly for BGNLIB and BGNSTR of a rewriting run (path conditions evaluated over %d record types x {query, rewrite})' % (len(sites), len(recs)),
              '; '.join(bad[:3]))
    ctx.require('R-CONST timestamp rewrite sites', len(sites), 1)
    # the buffer holds the stamp twice, big-endian: 6 words filled, swapped, duplicated
    sw = [c for c in f.calls('gdstk::big_endian_swap16') if norm(c.args[0].text()) == 'new_tm_buffer']
    cp = [c for c in f.calls('memcpy') if norm(c.args[0].text()).startswith('(new_tm_buffer + 6)')]
    st = sorted(x.child('lhs').child('idx').cv for x in f.walk() if is_assign(x) and x.child('lhs').k == 'ArraySubscriptExpr' and norm(x.child('lhs').child('base').text()) == 'new_tm_buffer')
    ok = len(sw) == 1 and sw[0].args[1].cv == 6 and len(cp) == 1 and cp[0].args[2].cv == 12 and st == [0, 1, 2, 3, 4, 5] and sw[0].pos < cp[0].pos
    ctx.check(ok, 'R-CONST', 'gds_timestamp/buffer-layout', f.loc(), 'six words are filled, swapped to big-endian, then duplicated (modification + access time)')
    rd = {x.child('lhs').n: norm(x.child('rhs').text()) for x in f.walk() if is_assign(x) and x.child('lhs').k == 'MemberExpr' and norm(x.child('lhs').text()).startswith('result.tm_')}
    wr = {x.child('lhs').child('idx').cv: norm(x.child('rhs').text()) for x in f.walk() if is_assign(x) and x.child('lhs').k == 'ArraySubscriptExpr' and norm(x.child('lhs').child('base').text()) == 'new_tm_buffer'}
    want_r = {'tm_year': '(data16[0] - 1900)', 'tm_mon': '(data16[1] - 1)', 'tm_mday': 'data16[2]', 'tm_hour': 'data16[3]', 'tm_min': 'data16[4]', 'tm_sec': 'data16[5]'}
    want_w = {0: '(new_timestamp->tm_year + 1900)', 1: '(new_timestamp->tm_mon + 1)', 2: 'new_timestamp->tm_mday', 3: 'new_timestamp->tm_hour', 4: 'new_timestamp->tm_min', 5: 'new_timestamp->tm_sec'}
    ctx.check(rd == want_r and wr == want_w, 'R-TABLE', 'gds_timestamp/field-order', f.loc(), 'reader and writer use the same word order with the +1900 / +1 biases inverted',
              'timestamp word order / biases differ: read %s write %s' % (rd, wr))


def _helper_reports_error(db, f, cond):
    """`!helper(..., error_code)`: the return below it is an error exit when every `return false` of the
    file-local helper sits in a block that stores through the parameter receiving error_code."""
    c = _strip_casts(cond)
    while c is not None and c.k == 'ParenExpr':
        c = _strip_casts(c.c[0])
    if c is None or c.k != 'UnaryOperator' or c.op != '!':
        return False
    call = _strip_casts(c.c[0])
    while call is not None and call.k == 'ParenExpr':
        call = _strip_casts(call.c[0])
    if call is None or call.k != 'CallExpr':
        return False
    h = next((x for x, _ in db.with_helpers([f]) if x is not f and x.qn == call.callee), None)
    if h is None:
        return False
    idx = next((i for i, a in enumerate(call.args) if norm(a.text()) == 'error_code'), None)
    if idx is None or idx >= len(h.params):
        return False
    pn = h.params[idx]['n']
    falses = [r for r in h.walk() if r.k == 'ReturnStmt' and r.c and r.c[0] is not None and norm(r.c[0].text()) in ('false', '0')]
    if not falses:
        return False
    for r in falses:
        blk = r.parent
        if not any(is_assign(x) and norm(x.child('lhs').text()) in ('(*%s)' % pn, '*%s' % pn) for x in blk.walk()):
            return False
    return True


def check_timestamp_coverage(ctx, db):
    """A rewrite run visits every BGNLIB/BGNSTR: inside the record loop a return is either an error exit
    (it stores an error code or follows a failed record read) or the query-mode exit guarded by exactly `!new_timestamp`."""
    f = db.fn('gdstk::gds_timestamp')
    # the record loop: the loop (of any form) that reads records
    loop = next((l for l in f.walk() if l.k in ('WhileStmt', 'ForStmt', 'DoStmt') and any(c.k == 'CallExpr' and c.callee == 'gdstk::gdsii_read_record' for c in l.walk())), None)
    if loop is None:
        raise AnalysisBroken('gds_timestamp: record loop not found')
    rets = [r for r in loop.walk() if r.k == 'ReturnStmt']
    bad = []
    nq = 0
    for r in rets:
        blk = r.parent
        err = blk is not None and any(is_assign(x) and norm(x.child('lhs').text()) in ('(*error_code)', '*error_code') for x in blk.walk())
        if err:
            continue
        g = next((a for a in r.ancestors() if a.k == 'IfStmt'), None)
        c = norm(g.child('cond').text()) if g is not None else ''
        if c in ('(!new_timestamp)', '(new_timestamp == NULL)', '(new_timestamp == __null)'):
            nq += 1
            continue
        if g is not None and _helper_reports_error(db, f, g.child('cond')):
            continue
        bad.append('%s: return under `%s`' % (r.loc(), c))
    ctx.check(not bad and nq == 1 and len(rets) >= 3, 'R-MUSTPASS', 'gds_timestamp/rewrite-visits-all-records', loop.loc(), 'of %d returns inside the record loop, %d are error exits and one is the query-mode exit under `!new_timestamp`: a rewrite run only ends at ENDLIB' % (len(rets), len(rets) - 1),
              'a run that rewrites timestamps can return before ENDLIB without an error (later BGNSTR records keep their old stamp): %s' % '; '.join(bad[:2]))
    # exits other than returns: a `break` under `record == ENDLIB`, or the loop condition `record != ENDLIB` (do-while form); both are
    # decided by evaluating the condition for every record type
    from .. import minieval
    recs = {c_['n']: c_['v'] for c_ in db.enum('gdstk::GdsiiRecord')['consts']}

    def holds_exactly_at_endlib(cnd, pol):
        try:
            for name, val in recs.items():
                v = bool(minieval.value_at(db, cnd, typed={'GdsiiRecord': val, 'tm *': 1, 'uint64_t': 28, 'ErrorCode': 0, 'FILE *': 1}))
                if (v == pol) != (name == 'ENDLIB'):
                    return False
            return True
        except AnalysisBroken:
            return False
    brk = [b for b in loop.walk() if b.k == 'BreakStmt' and next((a for a in b.ancestors() if a.k in ('WhileStmt', 'ForStmt', 'DoStmt', 'SwitchStmt')), None) is loop]
    exits = []
    for b in brk:
        pcs = [(c_, p_) for c_, p_ in tables.path_conds(b, stop=loop) if any(x.k in ('DeclRefExpr', 'MemberExpr') and 'GdsiiRecord' in (x.t or '') + (x.ct or '') for x in c_.walk())]
        exits.append(len(pcs) >= 1 and any(holds_exactly_at_endlib(c_, p_) for c_, p_ in pcs))
    lc = loop.child('cond')
    if lc is not None and not (_strip_casts(lc).k == 'CXXBoolLiteralExpr' and _strip_casts(lc).v):
        exits.append(holds_exactly_at_endlib(lc, False))
    ok = len(exits) == 1 and all(exits)
    ctx.check(ok, 'R-MUSTPASS', 'gds_timestamp/ends-at-ENDLIB', loop.loc(), 'the loop is left (other than by the error / query returns) only at ENDLIB')


def check_options_untouched(ctx, db):
    """the tag filter handed to read_gds is used as given: the parameter is never reassigned (an empty set filters everything out)"""
    f = db.fn('gdstk::read_gds')
    asg = [x for x in f.walk() if (is_assign(x) or x.k == 'CompoundAssignOperator') and norm(x.child('lhs').text()) == 'shape_tags']
    uses = [x for x in f.walk() if x.k == 'DeclRefExpr' and x.n == 'shape_tags']
    ctx.check(not asg and len(uses) >= 4, 'R-EFFECT', 'read_gds/filter-parameter-untouched', (asg[0] if asg else f).loc(), 'the filter set is only read (%d uses): NULL means no filter, any set - including the empty one - is applied as given' % len(uses),
              'read_gds overwrites its `shape_tags` parameter: the filter that is applied is not the one the caller gave')
    others = sorted({norm(a.child('cond').text()) for x in uses for a in x.ancestors() if a.k == 'IfStmt' and 'shape_tags' in norm(a.child('cond').text())})
    ctx.check(all(re.match(r'^\(\(shape_tags && \(!shape_tags->has_value\(.+\)\)\) && cell\)$', c) for c in others) and len(others) == 2, 'R-SHAPE', 'read_gds/filter-uses', f.loc(), 'the filter is consulted only in the two ENDEL drop tests', 'conditions mentioning shape_tags: %s' % others)


LENGTH_CALLEES = {'memcpy', 'memcmp', 'memmove', 'fwrite', 'fread', 'strncmp', 'strncpy', 'memchr'}


def check_payload_strings(ctx, db):
    """GDSII record payloads are length-delimited, not NUL-terminated (an even-length name has no padding byte, and
    the shared record buffer keeps the bytes of earlier records): the payload pointer only reaches functions that
    take an explicit length, unless the arm terminates the payload itself first."""
    n = 0
    for qn in ('gdstk::read_gds', 'gdstk::gds_info', 'gdstk::read_rawcells'):
        f = db.fn(qn)
        ctx.touch(f)
        sv = next((v for v in f.walk() if v.k == 'VarDecl' and v.n == 'str' and 'char' in (v.t or '') and v.child('init') is not None and 'buffer' in v.child('init').text()), None)
        if sv is None:
            raise AnalysisBroken('%s: payload string alias `str` not found' % qn)
        key = 'v%d:%s' % (sv.d, sv.n)
        for c in f.walk():
            if c.k not in ('CallExpr', 'CXXMemberCallExpr'):
                continue
            direct = [a for a in c.args if _strip_casts(a).k == 'DeclRefExpr' and lvalue_key(_strip_casts(a)) == key]
            if not direct:
                continue
            n += 1
            name = (c.callee or '').split('::')[-1]
            if name in LENGTH_CALLEES:
                ctx.ok('R-BOUND.cstring', '%s/%s@%s' % (qn.replace('gdstk::', ''), name, c.loc()), c.loc(), 'payload handed to %s with an explicit length' % name)
                continue
            # a file-local helper that receives the payload is part of the arm: inside it the pointer must again only reach
            # length-taking functions
            helper = next((g for g, _ in db.local_helpers(f) if g.qn == c.callee and len(g.params) == len(c.args)), None)
            if helper is not None:
                idx = next(i_ for i_, a in enumerate(c.args) if a in direct)
                pk = 'v%d:%s' % (helper.params[idx]['d'], helper.params[idx]['n'])
                inner = [cc for cc in helper.walk() if cc.k in ('CallExpr', 'CXXMemberCallExpr') and any(_strip_casts(a).k == 'DeclRefExpr' and lvalue_key(_strip_casts(a)) == pk for a in cc.args)]
                okh = all((cc.callee or '').split('::')[-1] in LENGTH_CALLEES for cc in inner) and not any(x.k == 'ReturnStmt' and x.child('value') is not None and lvalue_key(_strip_casts(x.child('value'))) == pk for x in helper.walk())
                ctx.check(okh, 'R-BOUND.cstring', '%s/%s@%s' % (qn.replace('gdstk::', ''), name, c.loc()), c.loc(), 'the helper %s hands the payload only to functions that take an explicit length' % name,
                          'the helper %s passes the record payload to a function that reads up to a NUL byte' % name)
                continue
            arm = next((a for a in c.ancestors() if a.k in ('CaseStmt', 'DefaultStmt')), None)
            scope = arm if arm is not None else f.body
            term = [x for x in scope.walk() if is_assign(x) and x.pos < c.pos and _strip_casts(x.child('lhs')).k == 'ArraySubscriptExpr' and lvalue_key(_strip_casts(_strip_casts(x.child('lhs')).child('base') or _strip_casts(x.child('lhs')).c[0])) == key and x.child('rhs').cv == 0]
            ctx.check(bool(term), 'R-BOUND.cstring', '%s/%s@%s' % (qn.replace('gdstk::', ''), name, c.loc()), c.loc(), 'the arm terminates the payload before handing it to %s' % name,
                      'the record payload is passed to %s, which reads up to a NUL byte: an even-length name has none, so bytes left in the buffer by earlier records become part of the name' % name)
    ctx.require('R-BOUND.cstring payload uses', n, 8)


def check_record_buffers(ctx, db):
    """every parser gives gdsii_read_record room for the longest legal record (65535 bytes; one more where the arm
    appends a terminator), and announces exactly that capacity"""
    n = 0
    for f in db.functions:
        if f.body is None or not f.relfile().startswith('src/'):
            continue
        for c in f.walk():
            if c.k == 'CallExpr' and c.callee == 'gdstk::gdsii_read_record':
                n += 1
                ctx.touch(f)
                b = _strip_casts(c.args[1])
                cap = _strip_casts(c.args[2])
                size = None
                if b.k == 'DeclRefExpr':
                    v = next((v for v in f.walk() if v.k == 'VarDecl' and 'v%d:%s' % (v.d, v.n) == lvalue_key(b)), None)
                    m = re.search(r'\[(\d+)\]', (v.t or '')) if v is not None else None
                    size = int(m.group(1)) if m else None
                capv = None
                if cap.k == 'DeclRefExpr':
                    cv = next((v for v in f.walk() if v.k == 'VarDecl' and 'v%d:%s' % (v.d, v.n) == lvalue_key(cap)), None)
                    defs = [x.child('rhs') for x in f.walk() if is_assign(x) and lvalue_key(x.child('lhs')) == lvalue_key(cap)]
                    if cv is not None and cv.child('init') is not None:
                        defs.append(cv.child('init'))
                    vals = {d.cv for d in defs}
                    capv = vals.pop() if len(vals) == 1 else None
                ctx.check(size is not None and size >= 65536 and capv == size, 'R-CONST', '%s/record-buffer@%s' % (f.qn.replace('gdstk::', ''), c.loc()), c.loc(), 'the record buffer holds %s bytes (>= the longest record, 65535, plus a terminator) and that capacity is what gdsii_read_record is told' % size,
                          'the record buffer has %s bytes and the announced capacity is %s: a legal record longer than the buffer (e.g. a long LIBNAME before UNITS) makes this parser fail where the others succeed' % (size, capv))
    ctx.require('R-CONST record buffers', n, 5)


def check_tag_filter(ctx, db):
    f = db.fn('gdstk::read_gds')
    sw = record_switch(f)
    names = rec_names(db)
    arm = next((stmts for labels, stmts, top in tables.switch_arms(sw) if any(names.get(l) == 'ENDEL' for l in labels)), None)
    if arm is None:
        raise AnalysisBroken('read_gds: ENDEL arm not found')
    outer = next((s for s in arm if s.k == 'IfStmt'), None)
    pb = outer.child('then')
    eb = outer.child('else')
    pathif = eb if eb is not None and eb.k == 'IfStmt' else None
    ok = norm(outer.child('cond').text()) == 'polygon' and pathif is not None and norm(pathif.child('cond').text()) == 'path'
    if ok:
        pf = next((s for s in pb.stmts() if s.k == 'IfStmt' and 'shape_tags' in s.child('cond').text()), None)
        qf = next((s for s in pathif.child('then').stmts() if s.k == 'IfStmt' and 'shape_tags' in s.child('cond').text()), None)
        ok = pf is not None and qf is not None
        if ok:
            sub = [(r'gdstk::', ''), (r'<[A-Za-z]+:(?!:)[^>]*>', ''), (r'\bPolygon\b', 'ELEM'), (r'\bFlexPath\b', 'ELEM'), (r'polygon_array', 'ELEM_array'), (r'flexpath_array', 'ELEM_array'),
                   (r'v\d+->elements\[0\]\.tag', 'TAG'), (r'v\d+->tag', 'TAG')]
            a = clone.canon(pf, f, subst=sub)
            b = clone.canon(qf, f, subst=sub)
            ra = re.sub(r'\bv\d+\b', 'V', a)
            rb = re.sub(r'\bv\d+\b', 'V', b)
            d = clone.first_diff(ra, rb)
            ok = d is None
            ctx.check(ok, 'R-CLONE', 'read_gds/ENDEL-filter:polygon~path', pf.loc(), 'the polygon and path tag-filter blocks are the same code', None if d is None else 'filter blocks differ at line %d: `%s` vs `%s`' % d)
            cond = norm(pf.child('cond').text())
            # the condition, evaluated for every combination of {no filter, filter holding the tag, filter lacking it} x {no cell, cell}:
            # the element is dropped exactly when a filter is given, lacks the tag, and there is a cell to take it out of
            from .. import minieval as _M
            okc = True
            for filt in (None, True, False):
                for has_cell in (0, 1):
                    def _hook(callee, args, node, filt=filt):
                        if (callee or '').endswith('::has_value'):
                            return (int(bool(filt)),)
                        return None
                    mi_ = _M.Mini(db, hook=_hook, budget=2000)
                    mi_.obj_store = True
                    env_ = {}
                    for x_ in pf.child('cond').walk():
                        if x_.k == 'DeclRefExpr' and x_.dk in ('local', 'param'):
                            env_[x_.n] = (_M.Obj(tag=5) if x_.n not in ('shape_tags', 'cell') else None)
                    env_['shape_tags'] = 0 if filt is None else _M.Obj(set=True)
                    env_['cell'] = _M.Obj(present=1) if has_cell else 0
                    try:
                        got_ = bool(mi_.ev(pf.child('cond'), env_))
                    except AnalysisBroken:
                        got_ = None
                    if got_ != (filt is False and bool(has_cell)):
                        okc = False
            acts = norm(clone.canon(pf.child('then'), f))
            oka = 'remove_unordered' in acts and 'remove_item' in acts and '->clear()' in acts and 'free_allocation' in acts
            ctx.check(okc and oka, 'R-SHAPE', 'read_gds/ENDEL-filter:shape', pf.loc(), 'an element is dropped only when a filter is given and lacks its tag; it is removed from the cell, cleared and freed',
                      'filter condition/actions differ: %s' % cond)
            return
    ctx.violation('R-SHAPE', 'read_gds/ENDEL-filter:shape', outer.loc() if outer is not None else f.loc(), 'ENDEL tag-filter structure not recognised')


def check_decoder_conversions(ctx, db):
    """The summary and the full loader decode the tag-carrying fields the same way: for LAYER, DATATYPE, TEXTTYPE and BOXTYPE the
    chain of conversions applied to the 16-bit payload word on its way into the tag (sa/widths.conversion_chain: e.g. int16_t ->
    uint32_t) is the same set in read_gds and in gds_info. A cast added on one side only makes the two report different tags for
    layers/types >= 32768, so a filter built from the summary drops shapes the full load keeps."""
    from .. import widths
    names = {c['v']: c['n'] for c in db.enum('gdstk::GdsiiRecord')['consts']}
    chains = {}
    for qn in ('gdstk::read_gds', 'gdstk::gds_info'):
        f = db.fn(qn)
        for sw in [s_ for s_ in f.walk() if s_.k == 'SwitchStmt']:
            for labels, stmts, top in tables.switch_arms(sw):
                for l in labels:
                    if names.get(l) in ('LAYER', 'DATATYPE', 'TEXTTYPE', 'BOXTYPE'):
                        sig = set()
                        for s_ in stmts:
                            for x in s_.walk():
                                if x.k == 'ArraySubscriptExpr' and (x.t or '').replace('const ', '') in ('int16_t', 'uint16_t', 'short', 'unsigned short'):
                                    sig.add(widths.conversion_chain(x))
                        chains.setdefault(names[l], {})[qn] = sig
    n = 0
    for rec, by in sorted(chains.items()):
        a, b = by.get('gdstk::read_gds'), by.get('gdstk::gds_info')
        if not a or not b:
            raise AnalysisBroken('record %s: payload word not found in both readers (%s)' % (rec, by))
        n += 1
        ctx.check(a == b, 'R-WIDTH', 'gds-tag-decoding/%s' % rec, db.fn('gdstk::gds_info').loc(), 'read_gds and gds_info convert the %s word the same way (%s)' % (rec, sorted(a)),
                  'the %s word is converted as %s by read_gds but as %s by gds_info: for values >= 32768 the summary and the full load report different tags' % (rec, sorted(a), sorted(b)))
    ctx.require('R-WIDTH tag-carrying records', n, 4)


def run(ctx):
    db = ctx.db
    ctx.attempt(check_sibling_tables, ctx, db)
    ctx.attempt(check_units, ctx, db)
    ctx.attempt(check_header_clones, ctx, db)
    ctx.attempt(check_header_bytes, ctx, db)
    ctx.attempt(check_rawcells, ctx, db)
    ctx.attempt(check_timestamp, ctx, db)
    ctx.attempt(check_tag_filter, ctx, db)
    ctx.attempt(check_timestamp_coverage, ctx, db)
    ctx.attempt(check_options_untouched, ctx, db)
    ctx.attempt(check_payload_strings, ctx, db)
    ctx.attempt(check_record_buffers, ctx, db)
    ctx.attempt(check_decoder_conversions, ctx, db)
    from . import C20   # the tag sets of the summary and the tag filter of the full load are Set<Tag>: they must behave as sets
    nre = 0
    for f_ in db.functions:
        if f_.body is not None and f_.relfile() in ('src/rawcell.cpp',):
            nre += flow.check_reexamine(ctx, f_)
    ctx.require('R-REEXAMINE removals inside index loops', nre, 2)
    ctx.memo('tables', C20.TABLE_FILES, C20.check_tables, db)
    from . import C03   # loading with a target unit == loading natively and rescaling: scale factor, unit, precision and the default tolerance of the UNITS arm
    ctx.attempt(C03.check_units_arm, ctx, db)


MANIFEST = dict(
    text='Decides structural agreement between the sibling GDSII parsers/writers: element-opening and tag-carrying record tables of gds_info equal those of read_gds (extracted from both), with the same routing into shape/label tag sets; the UNITS formulas of gds_units, gds_info and read_gds normalise to the same expressions; Library::write_gds\'s header and trailer are clones of gdswriter_init / GdsWriter::close and both hand cells the same scaling; read_rawcells accounts every record of an open structure into the raw cell (offset = ftell - record_length) and RawCell::to_gds moves exactly size bytes; a raw cell clears its source pointer unconditionally after releasing its share; the timestamp constants (28 = 4 + 2*12, seek -24, 12 words, word order and biases) are paired and the BGNLIB/BGNSTR rewrites are clones; the polygon and path tag-filter blocks at ENDEL are clones with the confirmed condition and the filter parameter is never reassigned (an empty set filters everything); record payloads reach only length-taking functions unless the arm terminates them first, every parser offers gdsii_read_record a buffer for the longest legal record and announces exactly its capacity; a timestamp rewrite run leaves the record loop only at ENDLIB or through an error exit (the only early success exit is the query mode) and rewrites every BGNSTR. Equality of loaded libraries or re-emitted bytes is not decided. The bytes that Library::write_gds (on a library without cells) and gdswriter_init + GdsWriter::close put around the cells are decided against the format by interpretation (R-MODEL.header: HEADER, BGNLIB with the time stamp twice, LIBNAME padded to even length, UNITS, ENDLIB, one fclose; names of odd and even length); the spelling comparison of the two writers is advisory.',
    note='Trusted: clang front end, gx, sa rules; tables are extracted from both sides (no frozen copy of either).',
    technique='sibling table extraction and comparison + path conditions evaluated over the record-type enumeration (timestamp rewrite sites) + paired-constant checks over typed ASTs + conversion-chain (width) comparison of the two decoders + byte-level interpretation of both GDSII header/trailer writers against the format (sa/minieval)',
    design='§4 C17')
