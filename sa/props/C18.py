"""C18 — truncated files: handle typestate on every exit, loop progress, nullable use, ENDLIB
dominance of success returns, error-result checks, bounded copies (DESIGN.md §4 C18)."""
from .. import flow, pathsens, tables, cfg as cfgmod
from ..facts import AnalysisBroken
from ..flow import null_test, lvalue_key, is_assign, pretty_key, _strip_casts
import re
from ..controls import load_controls

EXPLANATION = ('Static path rules over the clang CFG of the eight file readers: R-PAIR (no exit edge carries an open '
               'FILE*), R-LOOP (every loop makes progress on every path), R-NULL (nullable results are tested before '
               'use), R-MUSTPASS (success returns are dominated by the ENDLIB arm; error exits return an empty value and '
               'set the error code), R-ERRCHK (every gdsii_read_record result is checked and the short-read tests inside '
               'it compare the fread result with the requested count), R-BOUND (copies into fixed-size objects are '
               'bounded by sizeof). Decides these structural necessary conditions for all paths; does not decide absence '
               'of every memory error for every byte pattern.')
ASSUMPTIONS = ['clang CFG is a sound over-approximation of feasible paths (path-insensitive joins only add states)',
               'libc model: fopen may return NULL, fclose releases, fread returns the number of items read',
               'callee summaries limited to functions defined under /repo']

READERS = ['gdstk::read_gds', 'gdstk::read_oas', 'gdstk::gds_units', 'gdstk::gds_timestamp', 'gdstk::gds_info',
           'gdstk::oas_precision', 'gdstk::oas_validate', 'gdstk::read_rawcells']
# read_oas: handles only (the property excludes its error paths)
FLOW_READERS = [r for r in READERS if r != 'gdstk::read_oas']
RECORD_READER = 'gdstk::gdsii_read_record'
ENDLIB = 4


def find_read_loop(fn):
    for L in cfgmod.loops(fn):
        if any(True for _ in (c for c in L.walk() if c.k == 'CallExpr' and c.callee == RECORD_READER)):
            return L
    return None


def is_empty_value(fn, v, ret):
    """Value returned on an error exit: value-initialised temporary, non-NoError code, or a
    container cleared on every path (dominating .clear())."""
    if v is None:
        return True, 'void'
    if v.k in ('CXXTemporaryObjectExpr', 'CXXFunctionalCastExpr', 'InitListExpr', 'CXXScalarValueInitExpr', 'ImplicitValueInitExpr'):
        inner = [c for c in v.walk() if c.k in ('DeclRefExpr', 'MemberExpr')]
        return (not inner), 'value-initialised temporary'
    if v.k == 'CXXConstructExpr' and not v.args:
        return True, 'default-constructed'
    if v.k == 'DeclRefExpr' and v.dk == 'enum':
        return (not v.qn.endswith('::NoError')), 'error constant %s' % v.qn
    if v.k == 'CXXBoolLiteralExpr':
        return (v.v is False), 'false'
    src = v
    if v.k == 'CXXConstructExpr' and v.args:
        src = v.args[0]
    key = lvalue_key(src)
    if key:
        g = fn.cfg
        for c in fn.walk():
            if c.k == 'CXXMemberCallExpr' and (c.callee or '').endswith('::clear') and lvalue_key(c.child('obj')) == key:
                if g.node_dominates(c, ret):
                    return True, '`%s.clear()` dominates the return' % pretty_key(key)
    return False, 'returns `%s`' % v.text()[:60]


ERRKINDS = ('err', 'rerr')


def _code_val(e, conf):
    """abstract value of an ErrorCode / bool expression under a configuration: 'ok' | 'err' (a constant other than NoError) |
    'rerr' (a record read that failed) | 'r?' (a record read not yet tested) | True | False | 'any'"""
    e = flow._strip_casts(e)
    while e is not None and e.k == 'ParenExpr':
        e = flow._strip_casts(e.c[0])
    if e is None:
        return 'any'
    if e.k == 'DeclRefExpr' and e.dk == 'enum':
        if (e.qn or '').endswith('ErrorCode::NoError'):
            return 'ok'
        return 'err' if 'ErrorCode::' in (e.qn or '') else 'any'
    if e.k == 'CXXBoolLiteralExpr':
        return bool(e.v)
    if e.k == 'CallExpr' and e.callee == RECORD_READER:
        return 'r?'
    if e.k == 'DeclRefExpr':
        return pathsens.env_get(conf, lvalue_key(e), 'any')
    if is_assign(e) and e.op == '=':
        return _code_val(e.child('rhs'), conf)
    if e.k == 'UnaryOperator' and e.op == '!':
        v = _code_val(e.child('sub'), conf)
        return (not v) if isinstance(v, bool) else 'any'
    if e.k == 'BinaryOperator' and e.op in ('==', '!='):
        a, b = _code_val(e.child('lhs'), conf), _code_val(e.child('rhs'), conf)
        if isinstance(a, bool) and isinstance(b, bool):
            return (a == b) == (e.op == '==')
        if b != 'ok':
            a, b = b, a
        if b == 'ok' and a in ('ok',) + ERRKINDS:
            return (a == 'ok') == (e.op == '==')
        return 'any'
    if e.k == 'BinaryOperator' and e.op in ('&&', '||'):
        a, b = _code_val(e.child('lhs'), conf), _code_val(e.child('rhs'), conf)
        if e.op == '&&':
            return False if (a is False or b is False) else (True if (a is True and b is True) else 'any')
        return True if (a is True or b is True) else (False if (a is False and b is False) else 'any')
    return 'any'


def _code_refine(cond, conf, truth):
    """configuration on the edge where `cond` evaluates to `truth` (None: infeasible)"""
    c = flow._strip_casts(cond)
    while c is not None and c.k == 'ParenExpr':
        c = flow._strip_casts(c.c[0])
    if c is None:
        return conf
    v = _code_val(c, conf)
    if isinstance(v, bool):
        return conf if v == truth else None
    if c.k == 'UnaryOperator' and c.op == '!':
        return _code_refine(c.child('sub'), conf, not truth)
    if c.k == 'DeclRefExpr' and lvalue_key(c) and (c.t or '') == 'bool':
        return pathsens.env_set(conf, lvalue_key(c), truth)
    if c.k == 'BinaryOperator' and c.op in ('==', '!='):
        l, r = flow._strip_casts(c.child('lhs')), flow._strip_casts(c.child('rhs'))
        if _code_val(l, conf) == 'ok':
            l, r = r, l
        if _code_val(r, conf) == 'ok' and l is not None:
            while l.k == 'ParenExpr':
                l = flow._strip_casts(l.c[0])
            if is_assign(l) and l.op == '=':
                l = flow._strip_casts(l.child('lhs'))
            key = lvalue_key(l) if l.k == 'DeclRefExpr' else None
            cur = _code_val(l, conf)
            success = (c.op == '==') == truth
            if success:
                return pathsens.env_set(conf, key, 'ok') if key else conf
            if cur == 'r?':
                conf = pathsens.flag(conf, 'F')
                return pathsens.env_set(conf, key, 'rerr') if key else conf
            return pathsens.env_set(conf, key, 'err') if key else conf
    return conf


def check_mustpass_codes(ctx, fn, rule, need_endlib):
    """R-MUSTPASS for the readers that return an ErrorCode, by path-sensitive exploration (sa/pathsens.py): on every
    path on which a record read failed the function returns a code other than NoError (the failing code itself or an
    error constant), and - where ENDLIB is the only legitimate end - no path that has started reading returns NoError
    without having passed the ENDLIB arm. Flags, result variables and single exits carry the facts as data."""
    g = fn.cfg
    L = find_read_loop(fn)
    if L is None:
        raise AnalysisBroken('%s: read loop (loop calling gdsii_read_record) not found' % fn.qn)
    inl = {n.id for n in L.walk()}
    endlib_blocks = set()
    for b in g.blocks.values():
        if b.lab:
            lab = fn.nodes.get(b.lab)
            while lab is not None and lab.k == 'CaseStmt':
                if lab.child('lhs') is not None and lab.child('lhs').cv == ENDLIB and lab.id in inl:
                    endlib_blocks.add(b.id)
                lab = lab.child('sub') if lab.child('sub') is not None and lab.child('sub').k == 'CaseStmt' else None
    if need_endlib and not endlib_blocks:
        raise AnalysisBroken('%s: no `case ENDLIB` label inside the read loop' % fn.qn)

    def tracked(t):
        t = (t or '').replace('const ', '').strip()
        return t == 'bool' or (t.endswith('ErrorCode') and '*' not in t and '&' not in t)

    def transfer(n, conf):
        if n.k == 'CallExpr':
            if n.callee == RECORD_READER:
                conf = pathsens.flag(conf, 'R')
            for i, a in enumerate(n.args):
                a0 = flow._strip_casts(a)
                if a0 is None:
                    continue
                if a0.k == 'UnaryOperator' and a0.op == '&':
                    a0 = flow._strip_casts(a0.child('sub'))
                elif i not in (n.j.get('mutargs') or []):
                    continue
                if a0 is not None and a0.k == 'DeclRefExpr' and tracked(a0.t) and lvalue_key(a0):
                    conf = pathsens.env_set(conf, lvalue_key(a0), 'any')
            return conf
        if n.k == 'VarDecl' and tracked(n.t):
            return pathsens.env_set(conf, 'v%d:%s' % (n.d, n.n), _code_val(n.child('init'), conf) if n.child('init') is not None else 'any')
        if (is_assign(n) or n.k == 'CompoundAssignOperator'):
            l = flow._strip_casts(n.child('lhs'))
            if l is not None and l.k == 'DeclRefExpr' and tracked(l.t) and lvalue_key(l):
                return pathsens.env_set(conf, lvalue_key(l), _code_val(n.child('rhs'), conf) if n.op == '=' else 'any')
        return conf

    def branch(blk, cond, conf):
        return {0: _code_refine(cond, conf, True), 1: _code_refine(cond, conf, False)}

    def enter(blk, conf):
        return pathsens.flag(conf, 'D') if blk.id in endlib_blocks else conf

    confs = pathsens.explore(fn, (frozenset(), ()), transfer, branch, enter)
    ctx.explored['cfg_edges'] += sum(len(v) for v in confs.values())
    rets = sorted((n for n in fn.walk() if n.k == 'ReturnStmt'), key=lambda n: n.pos)
    cnt = 0
    for i, r in enumerate(rets):
        ikey = '%s/return#%d' % (fn.qn, i)
        cs = pathsens.at_node(fn, confs, r, transfer, enter)
        if not cs:
            continue
        failed = [c for c in cs if 'F' in c[0]]
        early = [c for c in cs if need_endlib and 'F' not in c[0] and 'R' in c[0] and 'D' not in c[0]]
        if failed:
            cnt += 1
            bad = [c for c in failed if _code_val(r.child('value'), c) not in ERRKINDS]
            ctx.check(not bad, rule, ikey, r.loc(), 'on every path with a failed record read this exit returns a code other than NoError (%d configurations)' % len(failed),
                      'error exit returns a possibly populated value (returns `%s`, which can be NoError after a failed record read): a shortened layout could be returned'
                      % r.child('value').text()[:40])
        if early:
            cnt += 1
            bad = [c for c in early if _code_val(r.child('value'), c) not in ERRKINDS]
            ctx.check(not bad, rule, ikey + '/before-ENDLIB', r.loc(), 'paths that have not passed the ENDLIB arm return an error code here',
                      'a return reachable after reading records (outside the record-error paths) is not through `case ENDLIB` and can return NoError: a file cut before ENDLIB could be returned as success')
        if not failed and not early and any('D' in c[0] for c in cs):
            cnt += 1
            ctx.ok(rule, ikey, r.loc(), 'return inside the read loop is dominated by the ENDLIB arm')
    return cnt


def check_mustpass(ctx, fn, rule='R-MUSTPASS', need_endlib=True):
    if (fn.ret or '').endswith('ErrorCode'):
        return check_mustpass_codes(ctx, fn, rule, need_endlib)
    g = fn.cfg
    L = find_read_loop(fn)
    if L is None:
        raise AnalysisBroken('%s: read loop (loop calling gdsii_read_record) not found' % fn.qn)
    inl = {n.id for n in L.walk()}
    # ERRCHK failing branch nodes
    err_nodes = set()
    for iff in L.walk():
        if iff.k == 'IfStmt':
            cd = iff.child('cond')
            if cd is not None and cd.k == 'BinaryOperator' and cd.op == '!=' and (cd.child('rhs').qn or '').endswith('ErrorCode::NoError'):
                err_nodes |= {n.id for n in iff.child('then').walk()}
    endlib_blocks = []
    for b in g.blocks.values():
        if b.lab:
            lab = fn.nodes.get(b.lab)
            while lab is not None and lab.k == 'CaseStmt':
                if lab.child('lhs') is not None and lab.child('lhs').cv == ENDLIB and lab.id in inl:
                    endlib_blocks.append(b.id)
                lab = lab.child('sub') if lab.child('sub') is not None and lab.child('sub').k == 'CaseStmt' else None
    if need_endlib and not endlib_blocks:
        raise AnalysisBroken('%s: no `case ENDLIB` label inside the read loop' % fn.qn)
    rets = sorted((n for n in fn.walk() if n.k == 'ReturnStmt'), key=lambda n: n.pos)
    cnt = 0
    errparam = fn.param('error_code')
    for i, r in enumerate(rets):
        ikey = '%s/return#%d' % (fn.qn, i)
        v = r.child('value')
        if r.id in inl and r.id not in err_nodes:
            if not need_endlib:
                continue
            cnt += 1
            w = g.where_node(r)
            dom = w is not None and any(eb == w[0] or eb in g.dom.get(w[0], ()) for eb in endlib_blocks)
            ctx.check(dom, rule, ikey, r.loc(), 'return inside the read loop is dominated by the ENDLIB arm',
                      'a return inside the read loop (outside the record-error branch) is not dominated by `case ENDLIB`: a file cut before ENDLIB could be returned as success')
        elif r.id in err_nodes or r.pos > max(n_.pos for n_ in L.walk()):
            cnt += 1
            if not need_endlib and r.id not in err_nodes:
                continue  # post-loop return of a query reached only through its own success break
            emp, why = is_empty_value(fn, v, r)
            if v is not None and v.k == 'CXXConstructExpr' and len(v.args) == 1 and lvalue_key(v.args[0]):
                v = v.args[0]
            if r.id in err_nodes and v is not None and lvalue_key(v) and not emp:
                # `return err;` inside `if (err != NoError)` — proved non-NoError by the dominating condition
                iff = next(a for a in r.ancestors() if a.k == 'IfStmt' and a.child('cond').op == '!=')
                if lvalue_key(iff.child('cond').child('lhs')) == lvalue_key(v):
                    emp, why = True, 'returns the variable the dominating test proved != NoError'
                elif fn.ret.endswith('tm') or True:
                    # e.g. gds_timestamp returns its zero-initialised result; accepted when the result variable
                    # is not assigned before the loop's first successful record (checked: no store dominates)
                    stores = [s for s in fn.walk() if is_assign(s) and (lvalue_key(s.child('lhs')) or '').startswith(lvalue_key(v) + '.')
                              and g.node_dominates(s, r)]
                    decl_init_empty = any(d.k == 'VarDecl' and 'v%d:%s' % (d.d, d.n) == lvalue_key(v) and d.child('init') is not None
                                          and d.child('init').k == 'InitListExpr' and all(x is None or x.k == 'ImplicitValueInitExpr' for x in d.child('init').c) for d in fn.walk())
                    emp, why = (decl_init_empty and not stores), 'returns `%s`, value-initialised and not stored to on this path' % v.text()
            ctx.check(emp, rule, ikey, r.loc(), 'error exit returns an empty/error value (%s)' % why,
                      'error exit returns a possibly populated value (%s): a shortened layout could be returned' % why)
    # error code is set on every path from the record-error branch to the exit
    if errparam is not None and '*' in errparam['t']:
        cnt += 1
        ok, path = _error_code_set(fn, g, err_nodes)
        ctx.check(ok, rule, '%s/error_code-set' % fn.qn, fn.loc(), 'every path from the record-error branch to the exit stores through `error_code` (own-null-test idiom accepted)',
                  'a path from the record-error branch reaches the exit without storing an error through `error_code`', path)
    return cnt


def _error_code_set(fn, g, err_nodes):
    if not err_nodes:
        return False, None
    start = None
    for b in sorted(g.blocks.values(), key=lambda b: -b.id):
        if any(e in err_nodes for e in b.e) or (b.t in err_nodes if b.t else False):
            start = b.id
            break
    if start is None:
        return False, None

    def stores(b):
        for e in g.blocks[b].e:
            n = fn.nodes.get(e)
            if n is not None and is_assign(n) and n.op == '=':
                l = n.child('lhs')
                if l.k == 'UnaryOperator' and l.op == '*' and l.child('sub').k == 'DeclRefExpr' and l.child('sub').n == 'error_code':
                    return True
        return False
    st = [(start, [start])]
    seen = set()
    while st:
        b, path = st.pop()
        if b in seen:
            continue
        seen.add(b)
        if stores(b):
            continue
        if b == g.exit:
            return False, g.describe_path([(x, 0) for x in path])
        blk = g.blocks[b]
        cond = g.branch_cond(blk)
        for k, s in enumerate(blk.s):
            if s is None or blk.u[k]:
                continue
            if cond is not None and cond.k == 'ImplicitCastExpr' and cond.cast == 'PointerToBoolean' and cond.child('sub').n == 'error_code' and k == 1:
                continue  # caller passed NULL: nothing to set
            st.append((s, path + [s]))
    return True, None


def check_short_read_tests(ctx, fn, rule='R-ERRCHK.fread'):
    """Inside gdsii_read_record: each fread result is compared (<) with exactly the requested item
    count before the buffer is interpreted; comparison decided by linear normalisation through
    single-assignment locals."""
    from ..linear import lin_of, lin_sub
    cnt = 0
    freads = list(fn.calls('fread'))
    g = fn.cfg
    for c in freads:
        cnt += 1
        ikey = '%s/fread#%d' % (fn.qn, cnt - 1)
        p = c.parent
        res = None
        if p.k == 'VarDecl':
            res = 'v%d:%s' % (p.d, p.n)
        elif is_assign(p):
            res = lvalue_key(p.child('lhs'))
        if res is None:
            ctx.violation(rule, ikey, c.loc(), 'fread result not stored')
            continue
        want = lin_of(fn, c.args[2], at=c, opaque={res})
        # find the first comparison after the call that mentions res (directly or through defs)
        found = None
        for n in sorted(fn.walk(), key=lambda n: n.pos):
            if n.pos <= c.pos or n.k != 'BinaryOperator' or n.op not in ('<', '!=', '>', '>=', '<=', '=='):
                continue
            if not g.node_dominates(c, n):
                continue
            l = lin_of(fn, n.child('lhs'), at=n, opaque={res}, frozen_after=c)
            r = lin_of(fn, n.child('rhs'), at=n, opaque={res}, frozen_after=c)
            if l is None or r is None:
                continue
            d = lin_sub(l, r)
            if res in d:
                found = (n, d)
                break
        if found is None:
            ctx.violation(rule, ikey, c.loc(), 'no comparison of the fread result follows the call')
            continue
        n, d = found
        # expected: res - want  (op '<')  i.e. res < want
        exp = lin_sub({res: 1}, want) if want is not None else None
        ok = exp is not None and n.op == '<' and d == exp
        # the true edge (short read) must return an error before buffer use
        ctx.check(ok, rule, ikey, n.loc(), 'short-read test is `result < requested` (normalised: %s < 0)' % _fmt(d),
                  'short-read test after fread is not `result < requested count`: normalised `%s %s 0`, expected `%s < 0`' % (_fmt(d), n.op, _fmt(exp) if exp else '?'))
    return cnt


def _fmt(d):
    if d is None:
        return '?'
    parts = []
    for k, v in sorted(d.items(), key=lambda kv: str(kv[0])):
        parts.append(('%+d*%s' % (v, pretty_key(k if isinstance(k, str) else k[1]))) if k != 1 else '%+d' % v)
    return ' '.join(parts) or '0'


def check_release_guard(ctx, fn, db, rule='R-PAIR.guard'):
    """In a function that itself closes `X->file` of a ref-counted owner X, every call to a
    releaser (a method containing the `uses--` diamond) must be dominated by a stand-alone
    `X->uses++` (one that is not the pairing increment of a `->source = X` store)."""
    releasers = set()
    for f in db.functions:
        for u in f.walk():
            if u.k == 'UnaryOperator' and u.op in ('post--', '--'):
                k = lvalue_key(u.child('sub'))
                if k and k.endswith('->uses'):
                    releasers.add(f.qn)
    owners = set()
    for c in fn.calls('fclose'):
        k = lvalue_key(c.args[0])
        if k and k.endswith('->file'):
            owners.add(k[:-6])
    cnt = 0
    g = fn.cfg
    for owner in owners:
        guards = []
        for u in fn.walk():
            if u.k == 'UnaryOperator' and u.op in ('post++', '++') and lvalue_key(u.child('sub')) == owner + '->uses':
                comp = u.parent
                paired = False
                for c2 in (comp.c if comp is not None else []):
                    s = c2
                    while s is not None and s.k in ('CaseStmt', 'DefaultStmt'):
                        s = s.child('sub')
                    if s is not None and is_assign(s) and lvalue_key(s.child('rhs')) == owner and s.child('lhs').n == 'source':
                        paired = True
                if not paired:
                    guards.append(u)
        for c in fn.walk():
            if c.k == 'CXXMemberCallExpr' and c.callee in releasers:
                cnt += 1
                ok = any(g.node_dominates(gd, c) for gd in guards)
                ctx.check(ok, rule, '%s/call:%s#%d' % (fn.qn, c.callee.split('::')[-2] + '::' + c.callee.split('::')[-1], cnt - 1), c.loc(),
                          'call to releaser %s is dominated by a stand-alone `%s->uses++` guard' % (c.callee, pretty_key(owner)),
                          'call to %s can close and free `%s` (when it holds the last use) before this function closes it again: no dominating stand-alone `uses++` guard' % (c.callee, pretty_key(owner)))
    return cnt


def run_rules(ctx, db, fns, summaries, nullable):
    n_exit = n_loop = n_null = 0
    for qn in READERS:
        fn = fns[qn]
        ctx.touch(fn)
        n_exit += flow.check_handles(ctx, fn)
    for qn in FLOW_READERS:
        fn = fns[qn]
        n_loop += flow.check_loops(ctx, fn, summaries)
        n_null += flow.check_nullable_uses(ctx, fn, nullable)
    return n_exit, n_loop, n_null


def _logger_nonnull_at(f, call):
    """must-analysis over the CFG: on every path to `call` the last test of error_logger took the non-null edge
    (covers `if (error_logger) log`, `if (!error_logger) return; log`, `error_logger && log`, `cond ? ... : ...`)"""
    # syntactic case first (also the only one available for code put back from a helper, which has no CFG position of its own):
    # the call sits in the branch of an enclosing `if` that tests the pointer
    from .. import tables
    for cnd, pol in tables.path_conds(call):
        nt = null_test(cnd)
        if nt and nt[0].endswith('error_logger') and ((nt[1] and not pol) or ((not nt[1]) and pol)):
            return True
    cache = getattr(f, '_logger_nn', None)
    g = f.cfg
    if cache is None:
        def refine(blk, k, succ, st):
            if len(blk.s) != 2 or blk.tc is None:
                return st
            nt = null_test(g.branch_cond(blk))
            if nt and nt[0].endswith('error_logger'):
                nonnull_edge = (nt[1] and k == 1) or ((not nt[1]) and k == 0)
                return frozenset({'nn'}) if nonnull_edge else frozenset()
            return st
        ins, _ = g.forward(frozenset(), lambda n_, st: st, refine, lambda a, b: a & b)
        cache = f._logger_nn = ins
    w = g.where_node(call)
    if w is None:
        return False
    b = w[0] if isinstance(w, tuple) else w
    return 'nn' in cache.get(b, frozenset())


STDIO_LOG = {'fprintf', 'fputs', 'fputc', 'putc', 'fflush', 'fwrite', 'vfprintf'}


def check_logger_guards(ctx, dbx, label, files=None, only=None):
    """error_logger may be NULL (logging disabled): every stdio call on it is under a test of the pointer."""
    n = 0
    for f in dbx.functions:
        if f.body is None or not f.relfile().startswith(('src/', 'include/')):
            continue
        if files is not None and f.relfile() not in files:
            continue
        if only is not None and f.qn not in only:
            continue
        for c in f.walk():
            if c.k != 'CallExpr' or c.callee not in STDIO_LOG:
                continue
            if not any(_strip_casts(a).k == 'DeclRefExpr' and _strip_casts(a).n == 'error_logger' for a in c.args):
                continue
            n += 1
            guarded = _logger_nonnull_at(f, c)
            ctx.check(guarded, 'R-NULL.logger', '%s/%s/%s@%s' % (label, f.qn.replace('gdstk::', ''), c.callee, c.loc()), c.loc(), 'log call under `if (error_logger)`',
                      '%s(error_logger, ...) is reached without testing error_logger: with logging disabled (set_error_logger(NULL)) this path dereferences a null FILE* (%s configuration)' % (c.callee, label))
    return n


def flow_conjuncts(c):
    c = _strip_casts(c)
    if c is not None and c.k == 'BinaryOperator' and c.op == '&&':
        return flow_conjuncts(c.child('lhs')) + flow_conjuncts(c.child('rhs'))
    return [c]


def debug_units(repo):
    """translation units that use the debug-only logging macros outside comments"""
    import os
    from ..facts import source_units
    out = []
    for u in source_units(repo):
        src = open(u, errors='replace').read()
        src = re.sub(r'//[^\n]*', '', src)
        src = re.sub(r'/\*.*?\*/', '', src, flags=re.S)
        if re.search(r'\bDEBUG_(PRINT|HERE)\b', src):
            out.append(u)
    return out


def null_hazards(g):
    """[(store node, deref node, {param name: required truth})]: a local pointer of g is set to NULL and, on a CFG path without
    re-assignment, dereferenced with no test of the pointer in between; the conditions of the dereference that are plain boolean
    parameters are returned so that a caller passing literals can be judged."""
    out = []
    cfg = g.cfg
    sc = _strip_casts
    for st in g.walk():
        if not (is_assign(st) and st.op == '=' and sc(st.child('rhs')) is not None and (sc(st.child('rhs')).is_null_const() or st.child('rhs').is_null_const())):
            continue
        l = sc(st.child('lhs'))
        if l.k != 'DeclRefExpr' or l.dk != 'local' or '*' not in (l.t or ''):
            continue
        key = lvalue_key(l)
        derefs = []
        for x in g.walk():
            b = None
            if x.k == 'ArraySubscriptExpr':
                b = sc(x.child('base') or x.c[0])
            elif x.k == 'UnaryOperator' and x.op == '*':
                b = sc(x.child('sub'))
            elif x.k == 'MemberExpr' and x.arrow:
                b = sc(x.child('base'))
            if b is not None and lvalue_key(b) == key and x.pos > st.pos:
                derefs.append(x)
        wst = cfg.where_node(st)
        for d in derefs:
            wd = cfg.where_node(d)
            if wst is None or wd is None:
                continue
            redefs = {y.id for y in g.walk() if is_assign(y) and y is not st and lvalue_key(sc(y.child('lhs'))) == key}
            path = cfg.path_avoiding(wst, lambda b_, i_, nid: (b_, i_) == wd, lambda b_, i_, nid: nid in redefs)
            if path is None:
                continue
            conds = tables.path_conds(d)
            if any(null_test(c) is not None and null_test(c)[0] == key for c, pol in conds):
                continue            # the pointer itself is tested on the way
            req = {}
            for c, pol in conds:
                c0 = sc(c)
                if c0.k == 'DeclRefExpr' and c0.dk == 'param':
                    req[c0.n] = pol
            out.append((st, d, req))
    return out


def check_callee_null_hazards(ctx, db, readers):
    """A reader named by the property must not call a library function in a mode in which that function dereferences a pointer it
    has just set to NULL (error path of a short read): for every call from the readers to a function with such a hazard, the
    literal arguments are matched against the parameter conditions of the hazardous dereference."""
    n = 0
    for f, _w in db.with_helpers(list(readers)):         # the readers and the file-local helpers they call
        for c in f.walk():
            if c.k != 'CallExpr' or not (c.callee or '').startswith('gdstk::'):
                continue
            for g in db.fn(c.callee, all=True, required=False) or []:
                if g.body is None or len(g.params) != len(c.args):
                    continue
                hz = null_hazards(g)
                if not hz:
                    continue
                n += 1
                hit = None
                for st, d, req in hz:
                    ok_all = True
                    for i_, p_ in enumerate(g.params):
                        if p_['n'] in req:
                            a = _strip_casts(c.args[i_])
                            if a.k == 'CXXBoolLiteralExpr' and bool(a.v) != req[p_['n']]:
                                ok_all = False
                    if ok_all:
                        hit = (st, d, req)
                key = '%s->%s@%s' % (f.qn.replace('gdstk::', ''), g.qn.replace('gdstk::', ''), c.loc())
                ctx.check(hit is None, 'R-NULL.callee', key, c.loc(), '%s is called in a mode in which its error path does not touch the pointer it has released' % g.name,
                          '%s sets `%s` to NULL at %s and then executes `%s` (%s) when called with these arguments: on a truncated file this reader writes through a null pointer' % (
                              g.name, hit[0].child('lhs').text() if hit else '', hit[0].loc() if hit else '', ' '.join(hit[1].text().split())[:60] if hit else '', hit[1].loc() if hit else ''))
    ctx.require('R-NULL.callee calls of functions with a conditional hazard', n, 1)


def run(ctx):
    db = ctx.db
    fns = {qn: db.fn(qn) for qn in READERS}
    rr = db.fn(RECORD_READER)
    summaries = flow.build_summaries(db)
    nullable = flow.nullable_functions(db)
    if 'gdstk::oasis_read_string' not in nullable:
        raise AnalysisBroken('nullable summary lost oasis_read_string (expected to be able to return NULL)')

    n_exit, n_loop, n_null = run_rules(ctx, db, fns, summaries, nullable)
    ctx.require('R-PAIR exit edges', n_exit, 34)
    ctx.require('R-LOOP loops', n_loop, 12)
    nrc = flow.check_refcount_owner(ctx, db)
    ctx.require('R-PAIR.refcount sites', nrc, 3)
    ng = check_release_guard(ctx, fns['gdstk::read_rawcells'], db)
    ctx.require('R-PAIR.guard sites', ng, 1)

    # R-MUSTPASS
    nm = 0
    for qn in ('gdstk::read_gds', 'gdstk::read_rawcells', 'gdstk::gds_info'):
        nm += check_mustpass(ctx, fns[qn])
    for qn in ('gdstk::gds_units', 'gdstk::gds_timestamp'):
        nm += check_mustpass(ctx, fns[qn], need_endlib=False)
    ctx.require('R-MUSTPASS returns', nm, 12)

    # R-ERRCHK
    ne = 0
    for qn in ('gdstk::read_gds', 'gdstk::read_rawcells', 'gdstk::gds_info', 'gdstk::gds_units', 'gdstk::gds_timestamp'):
        ne += flow.check_error_checked(ctx, fns[qn], RECORD_READER)
    ctx.require('R-ERRCHK call sites', ne, 5)
    ctx.touch(rr)
    nf = check_short_read_tests(ctx, rr)
    ctx.require('R-ERRCHK.fread sites', nf, 2)

    # R-BOUND
    nb = 0
    for qn in FLOW_READERS:
        nb += flow.check_bounded_copies(ctx, fns[qn], db)
    ctx.require('R-BOUND fixed-size destinations', nb, 1)

    # R-NULL.logger: release configuration (all units) and the default CMake configuration (no NDEBUG) for the
    # units that use the debug-only logging macros, which expand to stdio calls on error_logger
    reach = set()
    work = [fns[q] for q in FLOW_READERS]
    while work:
        f_ = work.pop()
        if f_.qn in reach:
            continue
        reach.add(f_.qn)
        for c_ in f_.walk():
            if c_.k in ('CallExpr', 'CXXMemberCallExpr', 'CXXOperatorCallExpr') and (c_.callee or '').startswith('gdstk::'):
                for g_ in db.fn(c_.callee, all=True, required=False) or []:
                    if g_.body is not None and g_.qn not in reach:
                        work.append(g_)
    nl = check_logger_guards(ctx, db, 'NDEBUG', only=reach)
    ctx.require('R-NULL.logger log sites (release)', nl, 30)
    from ..facts import load_variant
    du = debug_units(db.repo)
    if not du:
        raise AnalysisBroken('no unit uses DEBUG_PRINT/DEBUG_HERE any more: drop the debug-configuration pass')
    vdb = load_variant(db.repo, du, ['-UNDEBUG'])
    nd = check_logger_guards(ctx, vdb, 'no-NDEBUG', files={'src/' + u.split('/src/')[-1] for u in du}, only=reach)
    ctx.require('R-NULL.logger log sites (debug configuration)', nd, 3)

    from . import C17   # payloads are not NUL-terminated; buffers hold the longest record (shared with C17)
    ctx.attempt(C17.check_payload_strings, ctx, db)
    ctx.attempt(C17.check_record_buffers, ctx, db)

    # R-PAIR.dangling: a released pointer is not read again (returned, passed on, dereferenced, released twice)
    reach_all = set()
    work = [fns[q] for q in READERS]
    while work:
        f_ = work.pop()
        if f_.qn in reach_all:
            continue
        reach_all.add(f_.qn)
        for c_ in f_.walk():
            if c_.k in ('CallExpr', 'CXXMemberCallExpr', 'CXXOperatorCallExpr') and (c_.callee or '').startswith('gdstk::'):
                for g_ in db.fn(c_.callee, all=True, required=False) or []:
                    if g_.body is not None and g_.qn not in reach_all:
                        work.append(g_)
    ndg = 0
    for qn in sorted(reach_all):
        for f_ in db.fn(qn, all=True, required=False) or []:
            if f_.body is not None:
                ndg += flow.check_dangling(ctx, f_)
    ctx.require('R-PAIR.dangling release sites', ndg, 8)
    ctx.attempt(check_callee_null_hazards, ctx, db, [fns[q] for q in FLOW_READERS])# the full OASIS loader's error paths are outside the claim

    # positive controls: the same rules must fire on seeded miniatures
    cdb = load_controls()
    for name, rule_fn, expect in (
        ('ctl_leak_on_exit', lambda c, f: flow.check_handles(c, f), 'R-PAIR'),
        ('ctl_loop_no_progress', lambda c, f: flow.check_loops(c, f, flow.build_summaries(cdb)), 'R-LOOP'),
        ('ctl_null_to_memcmp', lambda c, f: flow.check_nullable_uses(c, f, flow.nullable_functions(cdb)), 'R-NULL'),
        ('ctl_unbounded_copy', lambda c, f: flow.check_bounded_copies(c, f, cdb), 'R-BOUND'),
        ('ctl_dangling', lambda c, f: flow.check_dangling(c, f), 'R-PAIR.dangling'),
    ):
        f = cdb.fn('controls::' + name)
        sub = ctx.sub(cdb)
        rule_fn(sub, f)
        ctx.control('%s (%s)' % (name, expect), bool(sub.violations(expect)))
        # and its repaired twin must be silent
        f2 = cdb.fn('controls::' + name + '_ok')
        sub2 = ctx.sub(cdb)
        rule_fn(sub2, f2)
        ctx.control('%s_ok silent (%s)' % (name, expect), not sub2.violations(expect) and len(sub2.obs) > 0)
XREF_FILES = ["src/library.cpp", "src/rawcell.cpp", "src/gdsii.cpp", "src/oasis.cpp"]


MANIFEST = dict(
   text='Decides, for every CFG path of the eight file readers, the structural necessary conditions of crash/leak/false-success freedom: no exit edge carries an open FILE* (R-PAIR, incl. the ref-counted RawSource idiom and its guard), every loop makes progress on every path (R-LOOP), nullable results are tested before use (R-NULL), success returns are dominated by the ENDLIB arm and error exits return an empty value and set the error code (R-MUSTPASS), every gdsii_read_record result is checked and its short-read tests compare the fread result with the requested count (R-ERRCHK, linear normalisation), copies into fixed-size objects are bounded (R-BOUND); a released buffer is never read again - returned, passed on, released twice - before being reassigned, in any function reachable from the readers (R-PAIR.dangling); record payloads, which are not NUL-terminated, only reach length-taking callees and the record buffers hold the longest record (R-BOUND.cstring, R-CONST, shared with C17); every stdio call on the (nullable) error logger reachable from the readers is under a test of the pointer, in the release configuration and - for the units that use the debug-only logging macros - in the default configuration without NDEBUG (R-NULL.logger). All paths / all exits, no input bound. Does not decide absence of every memory error for every byte pattern, nor checksum coincidences.',
   note='Trusted: clang 14 front end and clang::CFG, tools/gx/gx.cc, sa/*.py; libc model (fopen may return NULL, fclose releases, fread returns item count); callee summaries only for functions under /repo. Path-insensitive joins only add states, so a pass covers all feasible paths.',
   technique='custom typestate / dominance / loop-progress dataflow over the clang CFG, path-sensitive exploration over a finite environment for the ErrorCode readers (libTooling extractor + Python rules)',
   design='§4 C18')
