"""C19 — number encodings: varint overflow guards (exhaustive over the reachable decoder states),
writer/reader packing parameters, delta direction tables (writer o reader = id), byte swaps as
bit permutations, real-number forms, point-list codes, 8-byte-real constants. (DESIGN §4 C19)"""
import itertools
import re
from .. import tables, clone
from ..facts import AnalysisBroken
from ..flow import lvalue_key, is_assign, _strip_casts

EXPLANATION = ('(1) Both varint decoders, interpreted (sa/minieval, C integer widths) on every byte stream head(d, fill) ++ [b] ++ tail - '
               'depth d up to two groups past bit 63, both extreme fillings of the earlier groups, every byte value b, the shortest '
               'tails; the format gives the value V of a stream as an unbounded integer: V beyond 63 / 64 bits => ErrorCode::Overflow '
               'is stored (no silent wrap); V within and no continuation byte above bit 56 => exactly V and no flag; no shift by the '
               'operand width or more. The statement form of guard and loop does not enter. '
               '(2) Packing pairs: each '
               'oasis_write_int_internal(value, n, bits) call site has a reader site oasis_read_int_internal(skip = n) whose decode of '
               'the returned bits inverts the writer\'s bits expression; the internal masks/shifts (0x7F, 0x80, 7, 7-n) agree. (3) '
               'Direction tables: for every sign/equality class of (x, y) the writer\'s (direction, magnitude) composed with the '
               'reader\'s arm gives back (x, y) for 2-, 3- and g-deltas, codes = enum OasisDirection = SEMI P39. (4) Byte swaps: each '
               'of the six swap bodies, evaluated in the bit-provenance domain, is exactly the byte-reversal permutation and the '
               'big/little variants differ only in the polarity of the endianness guard. (5) Reals: writer type codes {0,1,2,3,7} each '
               'have a reader arm applying the inverse map; the reader also covers 4, 5, 6. (6) Point lists: every type the writer '
               'emits is decoded by the reader with the same delta codec; the implicit closing delta of Manhattan lists is dropped '
               'by the writer iff the reader re-creates it. (7) 8-byte reals: bias 64 / 14 hex digits / 56-bit mantissa / sign bit '
               'constants are paired between encoder and decoder and the exponent uses a normalising idiom. Value-level '
               'losslessness (one-ulp claim) is not decided.')
ADVISORY = []
ASSUMPTIONS = ['the byte stream primitives oasis_read/oasis_write transfer bytes unchanged']
XREF_FILES = ['src/oasis.cpp', 'src/gdsii.cpp', 'src/utils.cpp']


def norm(t):
    return re.sub(r'<[A-Za-z]+:(?!:)[^>]*>', '', t).replace('gdstk::', '')


# ---------------------------------------------------------------- pure integer expression evaluation

def ieval(e, env):
    """Evaluate a side-effect-free integer/boolean expression (C semantics on Python ints, masked
    to the node's unsigned width where the type says so)."""
    e0 = e
    e = _strip_casts(e)
    if e.cv is not None and e.k not in ('DeclRefExpr',):
        return e.cv
    k = e.k
    if k == 'DeclRefExpr':
        if e.dk == 'enum':
            return e.cv
        return env[e.n]
    if k == 'UnaryOperator':
        v = ieval(e.child('sub'), env)
        return {'-': -v, '!': int(not v), '~': ~v, '+': v}[e.op]
    if k == 'BinaryOperator':
        if e.op == '&&':
            return int(bool(ieval(e.child('lhs'), env)) and bool(ieval(e.child('rhs'), env)))
        if e.op == '||':
            return int(bool(ieval(e.child('lhs'), env)) or bool(ieval(e.child('rhs'), env)))
        a, b = ieval(e.child('lhs'), env), ieval(e.child('rhs'), env)
        if e.op in ('<<', '>>') and (b < 0 or b >= 64):
            raise OverflowError('shift count %d' % b)
        import operator as O
        if e.op in ('/', '%'):
            if b == 0:
                raise OverflowError('division by zero')
            q = abs(a) // abs(b) * (1 if (a >= 0) == (b >= 0) else -1)     # C: truncation towards zero
            return q if e.op == '/' else a - q * b
        fn = {'+': O.add, '-': O.sub, '*': O.mul, '&': O.and_, '|': O.or_, '^': O.xor, '<<': O.lshift, '>>': O.rshift,
              '<': O.lt, '>': O.gt, '<=': O.le, '>=': O.ge, '==': O.eq, '!=': O.ne}[e.op]
        return int(fn(a, b))
    if k == 'ConditionalOperator':
        return ieval(e.child('then'), env) if ieval(e.child('cond'), env) else ieval(e.child('else'), env)
    raise AnalysisBroken('expression not evaluable: %s' % e0.text()[:80])


def _run_reader(db, fn, env, data):
    """interpret a varint reader on the byte stream `data`: (return value, environment, bytes consumed, in.error_code)"""
    from .. import minieval as M
    pos = [0]

    def hook(callee, args, node):
        if callee == 'gdstk::oasis_read':
            dst, size, count = args[0], args[1], args[2]
            if size != 1 or count != 1 or not isinstance(dst, M.Ref):
                raise AnalysisBroken('%s: oasis_read call not understood' % fn.qn)
            if pos[0] >= len(data):
                return (1,)         # input exhausted: an error code other than NoError
            dst.env[dst.name] = data[pos[0]]
            pos[0] += 1
            return (0,)
        if callee in ('fputs', 'fprintf'):
            return (0,)
        return None
    mi = M.Mini(db, hook=hook, member_store=True, members={'in.error_code': 0}, c_ints=True, globals={'error_logger': 0})
    env = dict(env)
    env['error_logger'] = 0
    try:
        mi.run(fn.body, env)
        ret = None
    except M.Return as rr:
        ret = rr.v
    return ret, env, pos[0], mi.members.get('in.error_code')


def check_guards(ctx, db):
    """Both varint decoders, interpreted (sa/minieval, C integer widths) on a family of byte streams that reaches every
    decoder state: for every depth d (number of continuation bytes read so far, up to two groups past bit 63), both
    extreme fillings of the earlier groups and every value 0..255 of the byte read at that depth, followed by the
    shortest tails. The format gives the value V of each stream as an unbounded integer. Required: V beyond the
    limit (63 magnitude bits, 64 unsigned) => ErrorCode::Overflow is stored, never a wrapped value returned as success;
    V within the limit and no continuation byte above bit 56 => exactly V, no error flag; no shift by its width or more
    is ever executed. Nothing about the statement form of the decoder (guard as if / else-if, loop on the byte or on
    a flag, early return or single exit) enters."""
    from .. import minieval as M
    full = ctx.tier == 'thorough'
    edge_bytes = {0x00, 0x01, 0x02, 0x3F, 0x40, 0x7F, 0x80, 0x81, 0x82, 0xBF, 0xC0, 0xFF}
    for qn, limit, skips in (('gdstk::oasis_read_unsigned_integer', 64, [0]), ('gdstk::oasis_read_int_internal', 63, [1, 2, 3, 4])):
        f = db.fn(qn)
        ctx.touch(f)
        name = qn.split('::')[-1]
        for skip in skips:
            n0 = 7 - skip
            problems = []
            wraps = []
            runs = 0
            depth_max = (63 - n0) // 7 + 3
            for d in range(0, depth_max + 1):
                for fill in ((0x00, 0x7F) if d > 0 else (0x00,)):
                    for b in range(256):
                        tails = ([[]] if b < 0x80 else [[0x00], [0x01], [0x80, 0x01]])
                        if not full:
                            # quick tier: every (depth, byte) state once, the other filling and tails on the group boundaries
                            if fill and b not in edge_bytes:
                                continue
                            if b >= 0x80 and b not in edge_bytes:
                                tails = [[0x01]]
                        if d == 0:
                            head = []
                        else:
                            head = [0x80 | (fill & 0x7F)] + [0x80 | fill] * (d - 1)
                        for tail in tails:
                            stream = head + [b] + tail
                            runs += 1
                            # the format's value
                            V = (stream[0] & 0x7F) >> skip
                            shift = n0
                            high = False           # a continuation byte read when num_bits > 56
                            for i, x in enumerate(stream[1:], 1):
                                if shift > 56 and x >= 0x80:
                                    high = True
                                V |= (x & 0x7F) << shift
                                shift += 7
                            bits = stream[0] & ((1 << skip) - 1)
                            try:
                                if skip:
                                    ret, env, used, err = _run_reader(db, f, {'in': ('opaque', 'in'), 'skip_bits': skip, 'result': 0}, stream + [0x55])
                                    val = env.get('result')
                                else:
                                    ret, env, used, err = _run_reader(db, f, {'in': ('opaque', 'in')}, stream + [0x55])
                                    val = ret
                            except M.UndefinedShift as ex:
                                if len(problems) < 3:
                                    problems.append('stream %s: %s' % (bytes(stream).hex(), ex))
                                continue
                            if V >> limit:
                                if not err:
                                    wraps.append(bytes(stream).hex())
                                    if len(problems) < 3:
                                        problems.append('stream %s encodes a value of %d bits but is decoded as %s without ErrorCode::Overflow (wraps)' % (bytes(stream).hex(), V.bit_length(), val))
                            elif not high:
                                if err and len(problems) < 3:
                                    problems.append('stream %s encodes %#x, which fits in %d bits, but is flagged as overflow' % (bytes(stream).hex(), V, limit))
                                elif not err and (val != V or used != len(stream) or (skip and ret != bits)) and len(problems) < 3:
                                    problems.append('stream %s decodes to %s (bits %s) after %d bytes, the format says %#x (bits %d) after %d' % (bytes(stream).hex(), val, ret, used, V, bits, len(stream)))
            ctx.explored['valuations'] += runs
            key = '%s/guard-exact|skip=%d' % (name, skip)
            ctx.check(not problems, 'R-GUARD', key, f.loc(), 'interpreted on %d byte streams (every depth up to %d continuation bytes x both fillings x every byte value x shortest tails): values beyond %d bits are flagged with ErrorCode::Overflow, fitting values are decoded exactly and never flagged, no shift by the operand width or more' % (runs, depth_max, limit),
                      'overflow guard is wrong: %s' % '; '.join(problems[:3]))
            ctx.require('R-GUARD streams interpreted (%s, skip %d)' % (name, skip), runs, 2000)


_DBREF = {}


def check_packing(ctx, db):
    _DBREF['db'] = db
    w = db.fn('gdstk::oasis_write_int_internal')
    r = db.fn('gdstk::oasis_read_int_internal')
    ctx.touch(w)
    ctx.touch(r)
    # The four varint routines are interpreted (sa/minieval) on boundary values and compared with the format's definition:
    # first byte = reserved bits | low (7-n) value bits << n, then 7-bit groups, least significant first, 0x80 = "more follows".
    from .. import minieval as M

    def spec_encode(value, n, bits):
        out = [(bits & ((1 << n) - 1)) | ((value & ((1 << (7 - n)) - 1)) << n)]
        value >>= 7 - n
        while value > 0:
            out[-1] |= 0x80
            out.append(value & 0x7F)
            value >>= 7
        return out

    def run_writer(fn, env):
        got = []

        def hook(callee, args, node):
            if callee == 'gdstk::oasis_write':
                buf, size, count = args[0], args[1], args[2]
                if not isinstance(buf, M.Ptr) or size != 1:
                    raise AnalysisBroken('%s: oasis_write call not understood' % fn.qn)
                if buf.i + count > len(buf.arr):
                    raise M.OutOfBounds('%d bytes are written from a %d-byte local buffer' % (count, len(buf.arr) - buf.i))
                got.extend(buf.arr[buf.i:buf.i + count])
                return (0,)
            return None
        try:
            M.Mini(db, hook=hook, c_ints=True).run(fn.body, env)
        except M.Return:
            pass
        return got

    def run_reader(fn, env, data):
        return _run_reader(db, fn, env, data)

    values = sorted({0, 1, 2, 5} | {(1 << k) + d for k in (3, 4, 5, 6, 7, 8, 13, 14, 20, 21, 27, 28, 34, 35, 41, 42, 48, 49, 55, 56, 57, 58, 59, 60, 61, 62) for d in (-1, 0, 1)} | {(1 << 63) - 1, 0x5555555555555555, 0x2AAAAAAAAAAAAAAA})
    bad = []
    cases = 0
    uw = db.fn('gdstk::oasis_write_unsigned_integer')
    ur = db.fn('gdstk::oasis_read_unsigned_integer')
    ctx.touch(uw)
    ctx.touch(ur)
    try:
        for n in (1, 2, 3, 4):
            for bits in sorted({0, 1, (1 << n) - 1, (1 << n) >> 1}):
                for v in values:
                    cases += 1
                    want = spec_encode(v, n, bits)
                    got = run_writer(w, {'out': ('opaque', 'out'), 'value': v, 'num_bits': n, 'bits': bits})
                    if got != want and len(bad) < 4:
                        bad.append('writer(value=%#x, reserved bits=%d:%d) emits %s, the format requires %s' % (v, n, bits, bytes(x & 0xFF for x in got).hex(), bytes(want).hex()))
                    ret, env, used, err = run_reader(r, {'in': ('opaque', 'in'), 'skip_bits': n, 'result': 0}, want + [0x55])
                    if (ret, env.get('result'), used) != (bits, v, len(want)) and len(bad) < 4:
                        bad.append('reader(%s, skip=%d) returns bits %s value %s after %d bytes, the format requires bits %d value %#x after %d bytes' % (bytes(want).hex(), n, ret, env.get('result'), used, bits, v, len(want)))
        for v in values + [(1 << 63), (1 << 64) - 1]:
            cases += 1
            want = spec_encode(v, 0, 0)
            got = run_writer(uw, {'out': ('opaque', 'out'), 'value': v})
            if got != want and len(bad) < 4:
                bad.append('unsigned writer(%#x) emits %s, the format requires %s' % (v, bytes(x & 0xFF for x in got).hex(), bytes(want).hex()))
            ret, env, used, err = run_reader(ur, {'in': ('opaque', 'in')}, want + [0x55])
            if (ret, used) != (v, len(want)) and len(bad) < 4:
                bad.append('unsigned reader(%s) returns %s after %d bytes, the format requires %#x after %d bytes' % (bytes(want).hex(), ret, used, v, len(want)))
    except M.OutOfBounds as ex:
        bad.append(str(ex))
    ctx.explored['valuations'] += cases
    ctx.check(not bad, 'R-CONST', 'int_internal/packing-formulas', w.loc(), 'interpreted on %d (value, reserved bits) cases up to 2^63-1 (2^64-1 unsigned): writers emit and readers decode exactly: first byte = bits | low (7-n) value bits << n, then 7-bit groups with 0x80 continuation; no store leaves the local buffer' % cases,
              'varint packing differs from the format: ' + '; '.join(bad))
    ctx.require('R-CONST varint cases interpreted', cases, 1000)
    # call-site pairs
    pairs = [('gdstk::oasis_write_integer', 'gdstk::oasis_read_integer', 1), ('gdstk::oasis_write_2delta', 'gdstk::oasis_read_2delta', 2), ('gdstk::oasis_write_3delta', 'gdstk::oasis_read_3delta', 3)]
    for wq, rq, n in pairs:
        wf, rf = db.fn(wq), db.fn(rq)
        ctx.touch(wf)
        ctx.touch(rf)
        wn = {c.args[2].cv for c in wf.calls('gdstk::oasis_write_int_internal')}
        rn = {c.args[1].cv for c in rf.calls('gdstk::oasis_read_int_internal')}
        ctx.check(wn == {n} and rn == {n}, 'R-CONST', '%s/bits=%d' % (wq.split('_')[-1], n), wf.loc(), 'writer reserves %d low bits and the reader skips %d' % (n, n), 'writer bits %s, reader skip %s' % (wn, rn))
    wi, ri = db.fn('gdstk::oasis_write_integer'), db.fn('gdstk::oasis_read_integer')
    tw = norm(clone.canon(wi.body, wi, ren=clone.Renamer(wi, params_by_name=True)))
    tr = norm(clone.canon(ri.body, ri, ren=clone.Renamer(ri, params_by_name=True)))
    ok = 'if (($value < 0))' in tw and 'oasis_write_int_internal($out, (-$value), 1, 1)' in tw and 'oasis_write_int_internal($out, $value, 1, 0)' in tw and \
        'if ((oasis_read_int_internal($in, 1, v0) > 0))' in tr and 'return (-v0)' in tr
    ctx.check(ok, 'R-TABLE', 'integer/sign-bit', wi.loc(), 'negative values are written as magnitude with sign bit 1; the reader negates exactly when the bit is set')
    wg, rg = db.fn('gdstk::oasis_write_gdelta'), db.fn('gdstk::oasis_read_gdelta')
    # writer side by evaluation over every sign/equality class of (x, y): octangular deltas are one integer with 4
    # reserved bits (form bit clear, direction above it), all others two integers with 2 and 1 reserved bits
    ok = True
    dirs = set()
    for x, y in sample_points():
        if (x, y) == (0, 0):
            continue
        cs = writer_table(wg, x, y)
        octa = x == 0 or y == 0 or abs(x) == abs(y)
        if octa:
            ok = ok and len(cs) == 1 and cs[0][1] == 4 and (cs[0][0] & 1) == 0 and 0 <= (cs[0][0] >> 1) < 8
            dirs |= {cs[0][0] >> 1} if len(cs) == 1 else set()
        else:
            ok = ok and len(cs) == 2 and (cs[0][1], cs[1][1]) == (2, 1) and (cs[0][0] & 1) == 1 and cs[0][0] < 4 and cs[1][0] < 2
    ok = ok and len(dirs) == 8
    tr = norm(clone.canon(rg.body, rg, ren=clone.Renamer(rg, params_by_name=True)))
    ok = ok and 'if (((v0 & 1) == 0))' in tr and '(oasis_read_int_internal($in, 4, v1) >> 1)' in tr and 'if (((oasis_read_int_internal($in, 2, $x) & 2) > 0))' in tr and 'if (((oasis_read_int_internal($in, 1, $y) & 1) > 0))' in tr
    ctx.check(ok, 'R-CONST', 'gdelta/forms', wg.loc(), 'form 0: 4 bits = direction << 1 (form bit 0); form 1: x with 2 bits (1 | sign << 1), y with 1 bit (sign); the reader tests the same bits',
              'g-delta bit layouts differ between writer (evaluated over all sign/equality classes) and reader')


def sample_points():
    for x, y in itertools.product((-3, -2, 0, 2, 3), repeat=2):
        yield x, y


def writer_table(fn, x, y):
    """Which oasis_write_int_internal calls does the writer reach for (x, y)? -> [(bits value, n, magnitude)]
    The writer is interpreted on concrete integers by the checker's AST interpreter (locals, if/else, conditional expressions,
    early returns, file-local helpers incl. reference out-parameters); every call of the internal varint writer is recorded."""
    from .. import minieval as M
    out = []

    def hook(callee, args, node):
        if callee == 'gdstk::oasis_write_int_internal':
            out.append((args[3], args[2], args[1]))
            return (0,)
        return None
    db = _DBREF.get('db')
    try:
        M.Mini(db, hook=hook, c_ints=True).run(fn.body, {'x': x, 'y': y, 'out': ('opaque', 'out')})
    except M.Return:
        pass
    return out


def reader_table(db, fn):
    """direction code -> (sx, sy) from the switch arms of a delta reader"""
    t = {}
    for sw in tables.switches_on(fn, 'OasisDirection'):
        for labels, stmts, top in tables.switch_arms(sw):
            asg = {}
            for s in stmts:
                for a in s.walk():
                    if is_assign(a):
                        tgt = norm(a.child('lhs').text())
                        r = _strip_casts(a.child('rhs'))
                        if is_assign(r):  # x = y = 0
                            asg[norm(r.child('lhs').text())] = 0
                            asg[tgt] = 0
                            continue
                        rt = norm(r.text())
                        asg[tgt] = {'value': 1, '(-value)': -1, '0': 0}.get(rt, None)
            for l in labels:
                if l != 'default':
                    t[l] = (asg.get('x'), asg.get('y'))
    return t


def check_directions(ctx, db):
    spec = {0: (1, 0), 1: (0, 1), 2: (-1, 0), 3: (0, -1), 4: (1, 1), 5: (-1, 1), 6: (-1, -1), 7: (1, -1)}
    e = {c['n']: c['v'] for c in db.enum('gdstk::OasisDirection')['consts']}
    ctx.check(e == {'E': 0, 'N': 1, 'W': 2, 'S': 3, 'NE': 4, 'NW': 5, 'SW': 6, 'SE': 7}, 'R-TABLE', 'OasisDirection/spec', '', 'direction codes equal SEMI P39 (E N W S NE NW SW SE = 0..7)')
    for kind, wq, rq, shift, domain in (('2delta', 'gdstk::oasis_write_2delta', 'gdstk::oasis_read_2delta', 0, 'manhattan'), ('3delta', 'gdstk::oasis_write_3delta', 'gdstk::oasis_read_3delta', 0, 'octangular'),
                                        ('gdelta', 'gdstk::oasis_write_gdelta', 'gdstk::oasis_read_gdelta', 1, 'all')):
        wf, rf = db.fn(wq), db.fn(rq)
        rt = reader_table(db, rf)
        bad = []
        n = 0
        for x, y in sample_points():
            if domain == 'manhattan' and x != 0 and y != 0:
                continue
            if domain == 'octangular' and not (x == 0 or y == 0 or abs(x) == abs(y)):
                continue
            n += 1
            calls = writer_table(wf, x, y)
            if len(calls) == 1:
                bits, nb, mag = calls[0]
                code = bits >> shift
                if shift and (bits & 1):
                    bad.append(((x, y), 'form bit set in single-delta form'))
                    continue
                sx, sy = rt.get(code, (None, None))
                if sx is None or (sx * mag, sy * mag) != (x, y) or mag < 0 or spec.get(code) != (sx, sy):
                    bad.append(((x, y), 'written as direction %s magnitude %s, read back as %s' % (code, mag, (None if sx is None else sx * mag, None if sy is None else sy * mag))))
            elif len(calls) == 2 and kind == 'gdelta':
                (bx, nx, mx), (by, ny, my) = calls
                rx = -mx if (bx & 2) else mx
                ry = -my if (by & 1) else my
                if not (bx & 1) or (rx, ry) != (x, y) or mx < 0 or my < 0 or (nx, ny) != (2, 1):
                    bad.append(((x, y), 'general form read back as %s' % ((rx, ry),)))
            else:
                bad.append(((x, y), 'writer emits %d integers' % len(calls)))
        ctx.explored['valuations'] += n
        ctx.check(not bad, 'R-TABLE', '%s/writer-o-reader=id' % kind, wf.loc(), 'for all %d sign/equality classes of (x, y) the reader\'s arm inverts the writer\'s (direction, magnitude)' % n,
                  '%s round trip fails: %s' % (kind, bad[:3]))
        if kind == '3delta':
            ctx.check(sorted(rt) == list(range(8)), 'R-EXHAUST', '3delta/reader-arms', rf.loc(), 'the reader handles all 8 directions')
        if kind == '2delta':
            ctx.check(set(rt) >= {0, 1, 2, 3}, 'R-EXHAUST', '2delta/reader-arms', rf.loc(), 'the reader handles the 4 Manhattan directions')


# ---------------------------------------------------------------- byte swaps (bit provenance)

def prov(e, width_in):
    """bit provenance of an unsigned expression over input variable b: list of 64 entries (None=0, int=bit of b, 'X'=conflict)"""
    e = _strip_casts(e)
    if e.k == 'DeclRefExpr':
        return [i if i < width_in else None for i in range(64)]
    if e.cv is not None:
        return ('const', e.cv)
    if e.k == 'BinaryOperator':
        a, b = prov(e.child('lhs'), width_in), prov(e.child('rhs'), width_in)
        if e.op in ('<<', '>>'):
            k = b[1]
            if e.op == '<<':
                return ([None] * k + a)[:64]
            return (a[k:] + [None] * k)[:64]
        if e.op == '&':
            if isinstance(b, tuple):
                a, b = b, a
            m = a[1]
            return [b[i] if (m >> i) & 1 else None for i in range(64)]
        if e.op == '|':
            return [x if y is None else (y if x is None else 'X') for x, y in zip(a, b)]
    raise AnalysisBroken('swap expression not interpretable: %s' % e.text()[:60])


def check_swaps(ctx, db):
    for w in (16, 32, 64):
        canon = {}
        for endian in ('big', 'little'):
            f = db.fn('gdstk::%s_endian_swap%d' % (endian, w))
            ctx.touch(f)
            st = next((x for x in f.walk() if is_assign(x) and x.child('lhs').k == 'UnaryOperator'), None)
            if st is None:
                raise AnalysisBroken('%s: swap store not found' % f.qn)
            p = prov(st.child('rhs'), w)[:w]  # truncation to the stored width
            want = [((w // 8 - 1 - (j // 8)) * 8 + (j % 8)) for j in range(w)]
            ctx.check(p == want, 'R-BITS', '%s_endian_swap%d/byte-reversal' % (endian, w), st.loc(), 'every output bit j comes from input bit of the mirrored byte (exact byte reversal of %d bits)' % w,
                      'swap is not the byte reversal: output bits %s' % [(j, p[j]) for j in range(w) if p[j] != want[j]][:6])
            g = next((i for i in f.body.c if i is not None and i.k == 'IfStmt'), None)
            gt = norm(g.child('cond').text()) if g is not None else ''
            ok = g is not None and g.child('then').k == 'ReturnStmt' and g.pos < st.pos
            # every one of the n elements is swapped once (affine loop summary; for / while, counting up or down alike)
            from .. import loops as LP
            L_ = LP.enclosing_loop(st)
            okv = False
            if L_ is not None and len(f.params) == 2:
                lp = LP.Loop(f, L_)
                tgt = _strip_casts(st.child('lhs'))
                ptr = lp.lin(tgt.child('sub'), st) if tgt.k == 'UnaryOperator' else lp.addr(tgt, st)
                base = 'v%d:%s' % (f.params[0]['d'], f.params[0]['n'])
                cnt = 'v%d:%s' % (f.params[1]['d'], f.params[1]['n'])
                okv = lp.visits(ptr, base, {cnt: 1}) is not None and LP.unconditional_in(st, L_)
            # the routine interpreted (sa/minieval, C integer widths) on a three-element and an empty buffer, once for a little-endian and
            # once for a big-endian host (the byte-order probe reads the bytes of its string literal in that order): the elements come out
            # byte-reversed exactly when the host order is not the order asked for, untouched otherwise
            from .. import minieval as M
            vals = [int.from_bytes(bytes(range(1 + 16 * k_, 1 + 16 * k_ + w // 8)), 'big') for k_ in range(3)]
            why = None
            for host_big in (False, True):
                for n_ in (3, 0):
                    buf = list(vals)
                    mi = M.Mini(db, budget=20000, c_ints=True)
                    mi.obj_store = True
                    mi.big_endian_host = host_big
                    mi.writable.add(id(buf))
                    try:
                        mi.run(f.body, {f.params[0]['n']: M.Ptr(buf, 0), f.params[1]['n']: n_})
                    except M.Return:
                        pass
                    except M.OutOfBounds as ex:
                        why = why or str(ex)
                        continue
                    must = (endian == 'big') != host_big
                    want_ = [int.from_bytes(v_.to_bytes(w // 8, 'big'), 'little') if (must and k_ < n_) else v_ for k_, v_ in enumerate(vals)]
                    if buf != want_:
                        why = why or 'on a %s-endian host, %d element(s): %s becomes %s, expected %s' % ('big' if host_big else 'little', n_, ['%x' % v_ for v_ in vals], ['%x' % v_ for v_ in buf], ['%x' % v_ for v_ in want_])
                    ctx.explored['valuations'] += 1
            ctx.check(why is None, 'R-SHAPE', '%s_endian_swap%d/host-guard' % (endian, w), f.loc(), 'the elements are byte-reversed exactly when the host does not already have that byte order (interpreted for both host orders)', why)
            ctx.check(okv, 'R-LOOP', '%s_endian_swap%d/all-elements' % (endian, w), f.loc(), 'the loop swaps each of the n elements exactly once')


def check_reals(ctx, db):
    w, r = db.fn('gdstk::oasis_write_real'), db.fn('gdstk::oasis_read_real_by_type')
    ctx.touch(w)
    ctx.touch(r)
    names = {c['n']: c['v'] for c in db.enum('gdstk::OasisDataType')['consts']}
    # writer o reader = identity on doubles: oasis_write_real is interpreted (sa/minieval, IEEE double division, C integer
    # conversions) on a table of values; the tokens it emits (type byte, unsigned magnitude or the 8 little-endian bytes) are fed to
    # the interpreted oasis_read_real_by_type; the value read back must be the value written. Which of the forms {+-int, +-1/int,
    # double} the writer picks is its own business; a magnitude converted to uint64 without being integral and below 2^64, a sign
    # or a reciprocal lost, a form the reader has no arm for - all show as a value that does not come back.
    import struct
    import math
    from .. import minieval as M
    table = [0.0, 1.0, -1.0, 2.0, 255.0, -256.0, 1e6, -1e9, float(2 ** 53), float(2 ** 53 + 2), -float(2 ** 62), float(2 ** 63), -float(2 ** 63), float(2 ** 64 - 2048),
             float(2 ** 64), -float(2 ** 64), 1e19, 1e20, -3e25, 1e300, 0.5, -0.25, 0.125, 1e-3, -1e-6, 1e-9, 0.1, 0.2, -0.3, 1.0 / 3.0, 2.5, -7.75, 1e-300, 5e-324, 123456.789, -2.0 ** -70]
    bad = []
    for v in table:
        toks = []

        def whook(callee, args, node):
            short = (callee or '').split('::')[-1]
            if short == 'oasis_putc':
                toks.append(('type', args[0] & 0xFF))
                return (0,)
            if short == 'oasis_write_unsigned_integer':
                toks.append(('uint', args[1]))
                return (None,)
            if short in ('little_endian_swap64', 'little_endian_swap32'):
                return (None,)           # (the byte order of the 8 bytes is decided by R-BITS on the swap routines)
            if short == 'oasis_write':
                ref = args[0]
                if not isinstance(ref, M.Ref) or args[1] * args[2] != 8:
                    raise AnalysisBroken('oasis_write_real: raw write not understood')
                toks.append(('bytes', struct.pack('<d', float(ref.env[ref.name]))))
                return (0,)
            if short == 'trunc':
                return (float(math.trunc(args[0])) if abs(args[0]) != math.inf and args[0] == args[0] else args[0],)
            if short == 'fabs':
                return (abs(args[0]),)
            return None
        mi = M.Mini(db, hook=whook, c_ints=True)
        mi.ieee = True
        try:
            mi.run(w.body, {w.params[0]['n']: ('opaque', 'out'), w.params[1]['n']: v})
        except M.Return:
            pass
        except M.UndefinedConversion as ex:
            bad.append('%r: %s (undefined: the integral and range tests must come first)' % (v, ex))
            continue
        if not toks or toks[0][0] != 'type':
            bad.append('%r: no type byte is written' % v)
            continue
        rest = list(toks[1:])

        def rhook(callee, args, node, rest=rest):
            short = (callee or '').split('::')[-1]
            if short == 'oasis_read_unsigned_integer':
                if not rest or rest[0][0] != 'uint':
                    raise AnalysisBroken('reader asks for an integer the writer did not write')
                return (rest.pop(0)[1],)
            if short == 'oasis_read':
                ref = args[0]
                if not rest or rest[0][0] != 'bytes' or not isinstance(ref, M.Ref):
                    raise AnalysisBroken('reader asks for raw bytes the writer did not write')
                ref.env[ref.name] = struct.unpack('<d', rest.pop(0)[1])[0]
                return (0,)
            if short in ('little_endian_swap64', 'little_endian_swap32'):
                return (None,)
            if short in ('fputs', 'fprintf'):
                return (0,)
            return None
        ri = M.Mini(db, hook=rhook, c_ints=True, member_store=True, members={'in.error_code': 0}, globals={'error_logger': 0})
        ri.ieee = True
        got = None
        try:
            ri.run(r.body, {r.params[0]['n']: ('opaque', 'in'), r.params[1]['n']: toks[0][1]})
        except M.Return as rr:
            got = rr.v
        except AnalysisBroken as ex:
            got = 'reader: %s' % ex
        if isinstance(got, str) or got is None or float(got) != v or rest:
            bad.append('%r is written as %s and read back as %s' % (v, [(t if t != 'bytes' else 'double', x if t != 'bytes' else '8 bytes') for t, x in toks], got))
    ctx.explored['valuations'] += len(table)
    ctx.check(not bad, 'R-TABLE', 'real/writer-forms', w.loc(), 'interpreted on %d values (integers up to 2^64 on both sides of the unsigned range, reciprocals, binary fractions, decimals, extremes): what oasis_write_real emits is read back by oasis_read_real_by_type as the same double' % len(table),
              'real numbers do not survive: ' + '; '.join(bad[:3]))
    ctx.require('R-TABLE reals interpreted', len(table), 30)
    # reader: the decoder is evaluated for every integer-based type code on the tokens 7 (first integer read) and 3 (second):
    # the results must be the inverse maps +u, -u, 1/u, -1/u, n/d, -n/d - whatever the dispatch looks like (switch, merged arms, ifs)
    from .. import minieval as M
    from fractions import Fraction
    rt = {}
    want_r = {'RealPositiveInteger': Fraction(7), 'RealNegativeInteger': Fraction(-7), 'RealPositiveReciprocal': Fraction(1, 7), 'RealNegativeReciprocal': Fraction(-1, 7),
              'RealPositiveRatio': Fraction(7, 3), 'RealNegativeRatio': Fraction(-7, 3)}
    tparam = r.params[1]['n']
    for name in want_r:
        toks = [7, 3]

        def hook(callee, args, node, toks=toks):
            if callee == 'gdstk::oasis_read_unsigned_integer':
                return (toks.pop(0) if toks else 1,)
            return None
        mi = M.Mini(db, hook=hook)
        try:
            mi.run(r.body, {tparam: names[name], r.params[0]['n']: ('opaque', 'in')})
            rt[name] = None
        except M.Return as rr:
            rt[name] = rr.v
        except AnalysisBroken as e:
            rt[name] = 'not evaluable: %s' % e
    ctx.explored['valuations'] += len(want_r)
    okr = all(rt.get(k) == v for k, v in want_r.items())
    has = {x.n for x in r.walk() if x.k == 'DeclRefExpr' and x.dk == 'enum'}
    okr = okr and 'RealFloat' in has and 'RealDouble' in has
    ctx.check(okr, 'R-TABLE', 'real/reader-forms', r.loc(), 'reader arms 0-5 apply the inverse maps (+u, -u, 1/u, -1/u, n/d, -n/d)', 'with u = n = 7, d = 3 the reader returns %s' % {k: str(v) for k, v in rt.items()})
    # float / double: the statements executed for that type code (path atoms on the type parameter) read 4 / 8 bytes and swap them
    tk = 'v%d:%s' % (r.params[1]['d'], r.params[1]['n'])
    for k, wdt, swp in (('RealFloat', 'sizeof(float)', 'gdstk::little_endian_swap32'), ('RealDouble', 'sizeof(double)', 'gdstk::little_endian_swap64')):
        calls = [c for c in r.walk() if c.k == 'CallExpr' and ('eq', tk, names[k], True) in tables.path_atoms(c)]
        rd = [c for c in calls if c.callee == 'gdstk::oasis_read' and wdt in norm(' '.join(a.text() for a in c.args))]
        sp = [c for c in calls if c.callee == swp]
        ctx.check(bool(rd) and bool(sp), 'R-TABLE', 'real/%s' % k, r.loc(), '%s reads %s bytes and converts from little-endian' % (k, wdt))
    ctx.check(all(rt.get(k_) is not None and not isinstance(rt.get(k_), str) for k_ in ('RealPositiveInteger', 'RealNegativeInteger', 'RealPositiveReciprocal', 'RealNegativeReciprocal')) and 'RealDouble' in has,
              'R-TABLE', 'real/writer-subset-of-reader', r.loc(), 'every form the writer emits has a reader arm')


def check_closing_edge_source(ctx, db):
    """The point-list encoder turns points[1..] into deltas in place. The closing edge of a closed list (first vertex minus last
    vertex, which decides whether an implicit Manhattan/octangular type is admissible) must be formed from the absolute
    coordinates: no path leads from an in-place store into `points` to the subtraction of two elements of `points` (R-ORDER)."""
    cands = [g for g in db.by_qn.get('gdstk::oasis_write_point_list', []) if g.body is not None and any('IntVec2' in (p_.get('t') or '') for p_ in g.params)]
    if len(cands) != 1:
        raise AnalysisBroken('oasis_write_point_list(Array<IntVec2>&): definition not found')
    f = cands[0]
    ctx.touch(f)
    pts = next(p_ for p_ in f.params if 'IntVec2' in (p_.get('t') or ''))

    def is_elem(e):
        e = _strip_casts(e)
        if e is None:
            return False
        if e.k == 'CXXOperatorCallExpr' and e.op == '[]' or e.k == 'ArraySubscriptExpr':
            b = _strip_casts(e.args[0] if e.k == 'CXXOperatorCallExpr' and e.args else (e.child('base') or (e.c[0] if e.c else None)))
            while b is not None and b.k == 'MemberExpr' and b.n == 'items':
                b = _strip_casts(b.child('base'))
            return b is not None and b.k == 'DeclRefExpr' and b.d == pts['d']
        if e.k == 'UnaryOperator' and e.op == '*':
            return any(x.k == 'DeclRefExpr' and x.d == pts['d'] for x in e.walk())
        return False
    stores = [x for x in f.walk() if ((x.k == 'CXXOperatorCallExpr' and x.op in ('=', '-=', '+=')) or is_assign(x) or x.k == 'CompoundAssignOperator') and x.child('lhs') is not None and is_elem(x.child('lhs'))]
    closing = [x for x in f.walk() if ((x.k == 'CXXOperatorCallExpr' and x.op == '-' and len(x.args) == 2 and all(is_elem(a) for a in x.args)) or
                                     (x.k == 'BinaryOperator' and x.op == '-' and is_elem(x.child('lhs')) and is_elem(x.child('rhs'))))]
    if not stores or not closing:
        raise AnalysisBroken('oasis_write_point_list: in-place delta store (%d) / closing-edge subtraction (%d) not found' % (len(stores), len(closing)))
    g = f.cfg
    bad = []
    for c in closing:
        wc = g.where_node(c)
        for st in stores:
            ws = g.where_node(st)
            if wc is None or ws is None:
                raise AnalysisBroken('oasis_write_point_list: statement not located in the CFG')
            path = g.path_avoiding(ws, lambda b, i, nid: (b, i) == wc, lambda b, i, nid: False)
            if path or ws == wc:
                bad.append('%s is evaluated after the in-place conversion at %s: it subtracts a delta, not the last vertex' % (c.loc(), st.loc()))
                break
    ctx.check(not bad, 'R-ORDER', 'point_list/closing-edge-from-absolute', f.loc(), 'the closing edge (first minus last vertex) is formed before points[] is converted to deltas in place (%d subtraction(s), %d in-place store(s))' % (len(closing), len(stores)),
              '; '.join(bad))


def check_point_lists(ctx, db):
    ws = [f for f in db.fn('gdstk::oasis_write_point_list', all=True) if 'IntVec2' in f.sig]
    if len(ws) != 1:
        raise AnalysisBroken('integer oasis_write_point_list overload not found')
    w, r = ws[0], db.fn('gdstk::oasis_read_point_list')
    ctx.touch(w)
    ctx.touch(r)
    names = {c['v']: c['n'] for c in db.enum('gdstk::OasisPointList')['consts']}
    ctx.check({v: k for k, v in names.items()} == {'ManhattanHorizontalFirst': 0, 'ManhattanVerticalFirst': 1, 'Manhattan': 2, 'Octangular': 3, 'General': 4, 'Relative': 5}, 'R-TABLE', 'OasisPointList/spec', '', 'point-list type codes equal SEMI P39 (0..5)')
    # writer emission switch: the last switch over list_type
    sws = tables.switches_on(w, 'OasisPointList')
    emit = sws[-1]
    wt = {}
    for labels, stmts, top in tables.switch_arms(emit):
        codec = sorted({c.callee.split('::')[-1] for s in stmts for c in s.walk() if c.k == 'CallExpr' and re.search(r'oasis_write_(\d|g)delta', c.callee or '')})
        tcode = next((norm(c.args[0].text()) for s in stmts for c in s.walk() if c.k == 'CallExpr' and c.callee == 'gdstk::oasis_putc'), '')
        for l in labels:
            wt[names.get(l, l)] = (re.search(r'OasisPointList::(\w+)', tcode).group(1) if 'OasisPointList::' in tcode else '?', codec)
    rsw = tables.switches_on(r, 'OasisPointList')[0]
    rt = {}
    for labels, stmts, top in tables.switch_arms(rsw):
        codec = sorted({c.callee.split('::')[-1] for s in stmts for c in s.walk() if c.k == 'CallExpr' and re.search(r'oasis_read_(\d|g)delta', c.callee or '')})
        for l in labels:
            rt[names.get(l, l)] = codec
    want = {'ManhattanHorizontalFirst': 'oasis_write_1delta', 'ManhattanVerticalFirst': 'oasis_write_1delta', 'Manhattan': 'oasis_write_2delta', 'Octangular': 'oasis_write_3delta', 'default': 'oasis_write_gdelta'}
    ok = all(k in wt and wt[k][1] == [want[k]] and wt[k][0] == (k if k != 'default' else 'General') for k in want)
    ctx.check(ok, 'R-TABLE', 'point-list/writer-codes', emit.loc(), 'each list type is written with its own code and delta codec (1-delta, 2-delta, 3-delta, g-delta)', 'writer table: %s' % wt)
    ok = all(rt.get(k if k != 'default' else 'General') == [want[k].replace('write', 'read')] for k in want) and rt.get('Relative') == ['oasis_read_gdelta']
    ctx.check(ok, 'R-TABLE', 'point-list/reader-codecs', rsw.loc(), 'the reader decodes every type the writer emits with the matching codec, plus type 5', 'reader table: %s' % rt)
    # implicit closing delta
    tw = norm(clone.canon(w.body, w, ren=clone.Renamer(w, params_by_name=True)))
    dec = any(i.k == 'IfStmt' and _strip_casts(i.child('cond')).k == 'DeclRefExpr' and _strip_casts(i.child('cond')).dk == 'param' and 'bool' in (_strip_casts(i.child('cond')).t or '')
              and any((u.k == 'UnaryOperator' and u.op in ('--', 'post--')) or (u.k == 'CompoundAssignOperator' and u.op == '-=' and u.child('rhs').cv == 1) for u in i.child('then').walk()) for i in w.walk())
    arm = next((stmts for labels, stmts, top in tables.switch_arms(rsw) if 0 in labels), [])
    ta = norm(' '.join(s.text() for s in arm))
    rec = any(i.k == 'IfStmt' and norm(i.child('cond').text()) == 'closed' and any(u.k == 'UnaryOperator' and u.op in ('post++', '++') and norm(u.child('sub').text()) == 'num' for u in i.child('then').walk()) for s in arm for i in s.walk())
    ctx.check(dec and rec, 'R-PAIR', 'point-list/implicit-closing-delta', emit.loc(), 'for closed Manhattan lists the writer drops the last delta and the reader re-creates exactly one vertex',
              'implicit closing delta not paired (writer drops: %s, reader re-creates: %s)' % (dec, rec))
    # alternation start: HorizontalFirst starts with an x delta
    for labels, stmts, top in tables.switch_arms(emit):
        for l in labels:
            if l in (0, 1):
                a = next((x for s in stmts for x in s.walk() if is_assign(x) and norm(x.child('lhs').text()).endswith('prev_delta_is_horizontal') or (is_assign(x) and 'prev_delta_is_horizontal' in norm(x.child('lhs').text(clone.Renamer(w))))), None)
                val = norm(a.child('rhs').text()) if a is not None else '?'
                ctx.check(val == ('false' if l == 0 else 'true'), 'R-TABLE', 'point-list/first-axis:%s' % names[l], top.loc(), 'type %d starts with a %s delta' % (l, 'horizontal' if l == 0 else 'vertical'))


# ---------------------------------------------------------------- point-list classifier as a finite automaton

PL_CLASSES = ('H', 'V', 'P', 'M', 'G')   # y==0 | x==0 | x==y | x==-y | none of them (non-zero deltas)


def pl_cond(c, vec, cls, prev):
    """truth value of a classifier condition for a delta of class cls held in variable `vec`"""
    c = _strip_casts(c)
    if c.k == 'ParenExpr':
        return pl_cond(c.c[0], vec, cls, prev)
    if c.k == 'UnaryOperator' and c.op == '!':
        return not pl_cond(c.child('sub'), vec, cls, prev)
    if c.k == 'DeclRefExpr' and c.n == 'prev_delta_is_horizontal':
        return prev
    if c.k == 'BinaryOperator' and c.op in ('&&', '||'):
        a = pl_cond(c.child('lhs'), vec, cls, prev)
        if c.op == '&&':
            return a and pl_cond(c.child('rhs'), vec, cls, prev)
        return a or pl_cond(c.child('rhs'), vec, cls, prev)
    if c.k == 'BinaryOperator' and c.op in ('==', '!='):
        l, r = norm(c.child('lhs').text()), norm(c.child('rhs').text())
        truth = None
        if (l, r) == (vec + '.y', '0'):
            truth = cls == 'H'
        elif (l, r) == (vec + '.x', '0'):
            truth = cls == 'V'
        elif (l, r) == (vec + '.x', vec + '.y'):
            truth = cls == 'P'
        elif (l, r) in ((vec + '.x', '(-%s.y)' % vec), (vec + '.x', '-%s.y' % vec)):
            truth = cls == 'M'
        if truth is not None:
            return truth if c.op == '==' else not truth
    raise AnalysisBroken('point-list classifier: condition `%s` not recognised' % norm(c.text())[:80])


def pl_exec(stmts, vec, cls, state, names):
    """run one switch arm: returns the new (list_type, prev)"""
    lt, prev = state

    def run(s):
        nonlocal lt, prev
        if s is None:
            return True
        if s.k == 'CompoundStmt':
            for c in s.c:
                if not run(c):
                    return False
            return True
        if s.k == 'IfStmt':
            br = s.child('then') if pl_cond(s.child('cond'), vec, cls, prev) else s.child('else')
            return run(br)
        if s.k == 'BreakStmt':
            return False
        if is_assign(s):
            l = norm(s.child('lhs').text())
            r = _strip_casts(s.child('rhs'))
            if l == 'list_type' and r.k == 'DeclRefExpr' and r.dk == 'enum':
                lt = names[r.cv]
                return True
            if l == 'prev_delta_is_horizontal' and r.k == 'CXXBoolLiteralExpr':
                prev = bool(r.v)
                return True
        raise AnalysisBroken('point-list classifier: statement `%s` not recognised' % norm(s.text())[:80])
    for s in stmts:
        if not run(s):
            break
    return lt, prev


def pl_arm(sw, lt, names):
    inv = {v: k for k, v in names.items()}
    dflt = None
    for labels, stmts, top in tables.switch_arms(sw):
        if inv.get(lt) in labels:
            return stmts
        if 'default' in labels:
            dflt = stmts
    return dflt if dflt is not None else []


def pl_admits(lt, summ, closing=None):
    first, last, alt, kind = summ
    if closing is not None:
        ck = 0 if closing in ('H', 'V') else (1 if closing in ('P', 'M') else 2)
        kind = max(kind, ck)
        alt = alt and closing in ('H', 'V') and closing != last
    if lt == 'ManhattanHorizontalFirst':
        return alt and first == 'H' and kind == 0
    if lt == 'ManhattanVerticalFirst':
        return alt and first == 'V' and kind == 0
    if lt == 'Manhattan':
        return kind == 0
    if lt == 'Octangular':
        return kind <= 1
    return lt == 'General'


def check_point_list_fsm(ctx, db):
    """Abstract interpretation of the list-type classifier over delta classes: every reachable final state
    names a list type whose codec can represent every delta seen (and, for closed lists, the closing delta)."""
    ws = [f for f in db.fn('gdstk::oasis_write_point_list', all=True) if 'IntVec2' in f.sig]
    w = ws[0]
    names = {c['v']: c['n'] for c in db.enum('gdstk::OasisPointList')['consts']}
    sws = tables.switches_on(w, 'OasisPointList')
    if len(sws) != 3:
        raise AnalysisBroken('oasis_write_point_list: expected the step, closing and emission switches')
    step, close = sws[0], sws[1]
    loop = next((a for a in step.ancestors() if a.k == 'ForStmt'), None)
    cl_if = next((a for a in close.ancestors() if a.k == 'IfStmt'), None)
    if loop is None or cl_if is None or norm(cl_if.child('cond').text()) != 'closed':
        raise AnalysisBroken('oasis_write_point_list: classifier structure not recognised')
    init = next((v for v in w.walk() if v.k == 'VarDecl' and v.n == 'list_type'), None)
    st0 = (names[_strip_casts(init.child('init')).cv], False)
    start = (st0, (None, None, True, 0))
    seen = {start}
    work = [start]
    while work:
        (st, summ) = work.pop()
        for cls in PL_CLASSES:
            st2 = pl_exec(pl_arm(step, st[0], names), 'v', cls, st, names)
            first, last, alt, kind = summ
            axis = cls if cls in ('H', 'V') else 'O'
            k2 = max(kind, 0 if cls in ('H', 'V') else (1 if cls in ('P', 'M') else 2))
            s2 = (first if first is not None else axis, axis, alt and axis != 'O' and axis != last, k2)
            nxt = (st2, s2)
            if nxt not in seen:
                seen.add(nxt)
                work.append(nxt)
    ctx.explored['valuations'] += len(seen)
    bad_open, bad_closed = [], []
    for (st, summ) in seen:
        if summ[0] is None:
            continue
        if not pl_admits(st[0], summ):
            bad_open.append((st, summ))
        for cls in PL_CLASSES:
            st2 = pl_exec(pl_arm(close, st[0], names), 'last_delta', cls, st, names)
            if not pl_admits(st2[0], summ, closing=cls):
                bad_closed.append((st, summ, cls, st2[0]))

    def show(x):
        st, summ = x[0], x[1]
        return 'after deltas (first %s, last %s, alternating %s, %s) in state %s' % (summ[0], summ[1], summ[2], ('rectilinear', 'octangular', 'general')[summ[3]], st[0])
    ctx.check(not bad_open, 'R-FSM', 'point-list/classifier-open', step.loc(), '%d reachable classifier states: the list type chosen for an open list can encode every delta seen' % len(seen),
              'open list: %s the chosen type cannot encode the deltas' % (show(bad_open[0]) if bad_open else ''))
    ctx.check(not bad_closed, 'R-FSM', 'point-list/classifier-closed', close.loc(), 'for every reachable state and every class of closing delta the final type can encode all deltas and the implicit closing edge (types 0/1 only when the closing edge alternates with the last explicit one)',
              'closed list: %s, closing delta of class %s -> type %s, which cannot represent it (the reader re-creates the implicit vertex elsewhere)' % ((show(bad_closed[0]), bad_closed[0][2], bad_closed[0][3]) if bad_closed else ('', '', '')))
    ctx.require('R-FSM classifier states', len(seen), 20)


def check_point_list_model(ctx, db):
    """oasis_read_point_list interpreted (sa/minieval) for every list type 0..5, open and closed, with 1 to 4 deltas, on a result array
    that already holds the start vertex (and one more before it): the integers the delta readers are asked for are handed out from a
    fixed list, scaling 3. Required: the vertices stored after the start vertex, the count returned and result.count are the format's -
    types 0/1 alternate horizontal / vertical 1-deltas (a closed list gets the one vertex that closes with Manhattan edges), types 2-4
    add each delta to the previous vertex, type 5 adds the running sum of the deltas. Cursors, indices, branches or conditional
    expressions - any form."""
    from .. import minieval as M
    f = db.fn('gdstk::oasis_read_point_list')
    ctx.touch(f)
    names = {c['n']: c['v'] for c in db.enum('gdstk::OasisPointList')['consts']}
    S = 3
    start = (50, 70)
    bad = []
    runs = 0
    for tname, tcode in sorted(names.items(), key=lambda kv: kv[1]):
        for closed in (0, 1):
            for k in (1, 2, 3, 4):
                runs += 1
                ones = [4, -7, 5, 9][:k]
                pairs = [(4, -1), (-7, 2), (5, 5), (0, 9)][:k]
                q1, q2 = list(ones), list(pairs)
                ref = [None]

                def extra(callee, args, node):
                    short = (callee or '').split('::')[-1]
                    if short == 'oasis_read':
                        dst = args[0]
                        if isinstance(dst, M.Ref):
                            dst.env[dst.name] = tcode
                            return (0,)
                    if short == 'oasis_read_unsigned_integer':
                        return (k,)
                    if short in ('oasis_read_1delta', 'oasis_read_integer'):
                        if not q1:
                            raise M.OutOfBounds('a %dth 1-delta is read from a list of %d' % (k + 1, k))
                        return (q1.pop(0),)
                    if short in ('oasis_read_2delta', 'oasis_read_3delta', 'oasis_read_gdelta'):
                        if not q2:
                            raise M.OutOfBounds('a %dth delta is read from a list of %d' % (k + 1, k))
                        x_, y_ = q2.pop(0)
                        call_, env_ = ref[0].cur_call
                        for a_, v_ in ((call_.args[1], x_), (call_.args[2], y_)):
                            a0_ = _strip_casts(a_)
                            if a0_ is None or a0_.k != 'DeclRefExpr':
                                raise AnalysisBroken('oasis_read_point_list: delta reader called without plain out-variables')
                            cur_ = env_.get(a0_.n)
                            if isinstance(cur_, M.Ref):
                                cur_.env[cur_.name] = v_
                            else:
                                env_[a0_.n] = v_
                        return (None,)
                    if short in ('fputs', 'fprintf', '__assert_fail'):
                        return (0,)
                    return None
                pts = [M.Obj(x=-1, y=-2), M.Obj(x=start[0], y=start[1])]
                res = M.Obj(items=M.Ptr(pts, 0), count=2, capacity=2)
                mi = M.Mini(db, hook=M.array_hook(ref, extra), budget=50000, member_store=True, members={'in.error_code': 0}, globals={'error_logger': 0})
                mi.obj_store = True
                mi.writable.add(id(pts))
                ref[0] = mi
                env = {f.params[0]['n']: ('opaque', 'in'), f.params[1]['n']: S, f.params[2]['n']: closed, f.params[3]['n']: res}
                ret = None
                try:
                    mi.run(f.body, env)
                except M.Return as rr:
                    ret = rr.v
                except M.OutOfBounds as ex:
                    bad.append('%s, %s, %d deltas: %s' % (tname, 'closed' if closed else 'open', k, ex))
                    continue
                it = res['items']
                got = [(it.arr[it.i + j_].get('x'), it.arr[it.i + j_].get('y')) for j_ in range(2, res.get('count', 0))]
                want = []
                cur = start
                if tcode in (names.get('ManhattanHorizontalFirst'), names.get('ManhattanVerticalFirst')):
                    hor = tcode == names.get('ManhattanHorizontalFirst')
                    for d_ in ones:
                        cur = (cur[0] + S * d_, cur[1]) if hor else (cur[0], cur[1] + S * d_)
                        want.append(cur)
                        hor = not hor
                    if closed:
                        want.append((start[0], cur[1]) if hor else (cur[0], start[1]))
                elif tcode == names.get('Relative'):
                    acc = (0, 0)
                    for x_, y_ in pairs:
                        acc = (acc[0] + S * x_, acc[1] + S * y_)
                        cur = (cur[0] + acc[0], cur[1] + acc[1])
                        want.append(cur)
                else:
                    for x_, y_ in pairs:
                        cur = (cur[0] + S * x_, cur[1] + S * y_)
                        want.append(cur)
                if got != want or ret != len(want) or res.get('count') != 2 + len(want):
                    bad.append('%s, %s, deltas %s: stores %s, returns %s, result.count %s; the format defines %s' % (tname, 'closed' if closed else 'open', ones if want and tcode in (0, 1) else pairs, got, ret, res.get('count'), want))
    ctx.explored['valuations'] += runs
    ctx.check(not bad, 'R-ALGEBRA.pointlist', 'oasis_read_point_list/model', f.loc(), 'interpreted on %d (type, open / closed, 1-4 deltas) lists: the decoded vertices, the count returned and result.count are the format\'s' % runs,
              'the point-list decoder is wrong: ' + '; '.join(bad[:2]))
    ctx.require('R-ALGEBRA.pointlist lists interpreted', runs, 40)


def check_point_list_decoder(ctx, db):
    """R-ALGEBRA.pointlist: every arm of the point-list decoder, executed symbolically for K = 3 and 4 deltas (cursor
    pointers as indices into a symbolic vertex array, every decoded delta a fresh symbol, the loop unrolled), produces
    exactly the vertices the format defines: types 0/1 alternate horizontal/vertical 1-deltas (plus, for polygons, the
    implicit vertex that closes with Manhattan edges), types 2-4 add each delta to the previous vertex, type 5 adds the
    running sum of the deltas; the count returned and added to result.count equals the vertices stored."""
    from .. import symdiff as S
    f = db.fn('gdstk::oasis_read_point_list')
    ctx.touch(f)
    names = {c['v']: c['n'] for c in db.enum('gdstk::OasisPointList')['consts']}
    sw = tables.switches_on(f, 'OasisPointList')[0]
    READ2 = ('gdstk::oasis_read_2delta', 'gdstk::oasis_read_3delta', 'gdstk::oasis_read_gdelta')

    class Stop(Exception):
        pass

    def mbase(m):
        b = _strip_casts(m.child('base')) if m.child('base') is not None else None
        while b is not None and b.k == 'MemberExpr' and not b.n:     # anonymous struct/union members are transparent
            b = _strip_casts(b.child('base')) if b.child('base') is not None else None
        return b

    class PL(S.Algebra):
        def __init__(self, K, closed, first):
            S.Algebra.__init__(self, db, None)
            self.K = K
            self.mem = {-1: self.vec(S.atom('P0.x'), S.atom('P0.y'))}
            self.ptr = {}
            self.nd = 0
            self.count_add = None
            self.stores = []
            self.env = {'closed': S.P(1 if closed else 0), 'num': S.P(K), 'scaling': S.atom('s'), 'byte': S.P(first)}
            self.cache = {}

        def deref(self, sub, bump_ok=True):
            sub = _strip_casts(sub)
            if sub.k == 'UnaryOperator' and sub.op in ('post++',):
                nm = _strip_casts(sub.child('sub')).n
                i = self.ptr[nm]
                self.ptr[nm] = i + 1
                return i
            if sub.k == 'DeclRefExpr' and sub.n in self.ptr:
                return self.ptr[sub.n]
            raise S.Unsupported('pointer expression %s' % sub.text()[:40])

        def load(self, i):
            if i not in self.mem:
                raise S.Unsupported('read of vertex %d before it is written' % i)
            return self.mem[i]

        def value(self, e, env):
            e = _strip_casts(e)
            if e is not None and e.k == 'UnaryOperator' and e.op == '*' and _strip_casts(e.child('sub')).k in ('UnaryOperator', 'DeclRefExpr') and (_strip_casts(e.child('sub')).n in self.ptr or _strip_casts(e.child('sub')).k == 'UnaryOperator'):
                if e.id not in self.cache:
                    self.cache[e.id] = self.load(self.deref(e.child('sub')))
                return self.cache[e.id]
            if e is not None and e.k == 'MemberExpr' and e.n and mbase(e) is not None and mbase(e).k == 'DeclRefExpr' and mbase(e).n in self.ptr:
                v = self.load(self.ptr[mbase(e).n])
                return v[1] if e.n == 'x' else v[2]
            if e is not None and e.k == 'DeclRefExpr' and e.dk == 'enum':
                return S.P(e.cv)
            if e is not None and e.k == 'CallExpr' and e.callee == 'gdstk::oasis_read_1delta':
                if e.id not in self.cache:
                    self.nd += 1
                    self.cache[e.id] = S.atom('d%d' % self.nd)
                return self.cache[e.id]
            if e is not None and e.k == 'BinaryOperator' and e.op in ('==', '!=', '&&', '||', '<', '>'):
                a, b = self.value(e.child('lhs'), env), self.value(e.child('rhs'), env)
                if not (S.is_const(a) and S.is_const(b)):
                    raise S.Unsupported('symbolic comparison')
                a, b = a.get((), 0), b.get((), 0)
                return S.P(int({'==': a == b, '!=': a != b, '&&': bool(a) and bool(b), '||': bool(a) or bool(b), '<': a < b, '>': a > b}[e.op]))
            if e is not None and e.k == 'UnaryOperator' and e.op == '!':
                a = self.value(e.child('sub'), env)
                return S.P(int(not a.get((), 0)))
            return S.Algebra.value(self, e, env)

        def store(self, i, v, comp=None):
            if comp is None:
                self.mem[i] = v
            else:
                old = self.mem.get(i, self.vec(S.atom('undef%d.x' % i), S.atom('undef%d.y' % i)))
                self.mem[i] = self.vec(v, old[2]) if comp == 'x' else self.vec(old[1], v)
            if i not in self.stores:
                self.stores.append(i)

        def run(self, stmts):
            env = self.env
            for st in stmts:
                if st is None:
                    continue
                self.cache = {}
                k = st.k
                if k == 'CompoundStmt':
                    self.run(st.c)
                elif k == 'DeclStmt':
                    for v in st.c:
                        if v is None or v.k != 'VarDecl':
                            continue
                        init = v.child('init')
                        if '*' in (v.t or ''):
                            t = norm(init.text()) if init is not None else ''
                            if t == '(result.items + result.count)':
                                self.ptr[v.n] = 0
                            elif init is not None and _strip_casts(init).k == 'BinaryOperator' and _strip_casts(init).op == '-' and _strip_casts(_strip_casts(init).child('lhs')).n in self.ptr and _strip_casts(_strip_casts(init).child('rhs')).cv is not None:
                                self.ptr[v.n] = self.ptr[_strip_casts(_strip_casts(init).child('lhs')).n] - _strip_casts(_strip_casts(init).child('rhs')).cv
                            else:
                                raise S.Unsupported('cursor initialiser %s' % t)
                        elif init is not None:
                            env[v.n] = self.value(init, env)
                elif k == 'CallExpr' and st.callee in READ2:
                    self.nd += 1
                    env[_strip_casts(st.args[1]).n] = S.atom('x%d' % self.nd)
                    env[_strip_casts(st.args[2]).n] = S.atom('y%d' % self.nd)
                elif k == 'CXXMemberCallExpr' and (st.callee or '').endswith('::ensure_slots'):
                    continue
                elif k == 'ForStmt':
                    for _ in range(self.K):
                        self.run([st.child('body')])
                elif k == 'IfStmt':
                    c = self.value(st.child('cond'), env)
                    if not S.is_const(c):
                        raise S.Unsupported('symbolic branch')
                    br = st.child('then') if c.get((), 0) else st.child('else')
                    if br is not None:
                        self.run([br])
                elif k == 'UnaryOperator' and st.op in ('post++', '++'):
                    t = _strip_casts(st.child('sub'))
                    if t.n in self.ptr:
                        self.ptr[t.n] += 1
                    elif t.n in env and S.is_const(env[t.n]):
                        env[t.n] = S.add(env[t.n], S.P(1))
                    else:
                        raise S.Unsupported('increment of %s' % t.n)
                elif k in ('BinaryOperator', 'CXXOperatorCallExpr', 'CompoundAssignOperator') and (is_assign(st) or k == 'CompoundAssignOperator'):
                    l = _strip_casts(st.args[0] if k == 'CXXOperatorCallExpr' else st.child('lhs'))
                    r = st.args[1] if k == 'CXXOperatorCallExpr' else st.child('rhs')
                    if norm(l.text()) == 'result.count':
                        if st.op != '+=' or self.count_add is not None:
                            raise S.Unsupported('result.count update')
                        self.count_add = self.value(r, env)
                        continue
                    rv = self.value(r, env)
                    if st.op == '+=':
                        rv = self.vadd(self.value(l, env), rv)
                    elif st.op != '=':
                        raise S.Unsupported('operator %s' % st.op)
                    if l.k == 'DeclRefExpr':
                        env[l.n] = rv
                    elif l.k == 'MemberExpr' and mbase(l) is not None and mbase(l).k == 'DeclRefExpr' and mbase(l).n in self.ptr:
                        self.store(self.ptr[mbase(l).n], rv, l.n)
                    elif l.k == 'MemberExpr' and mbase(l) is not None and mbase(l).k == 'DeclRefExpr':
                        b = mbase(l).n
                        old = env[b]
                        env[b] = self.vec(rv, old[2]) if l.n == 'x' else self.vec(old[1], rv)
                    elif l.k == 'UnaryOperator' and l.op == '*':
                        self.store(self.deref(l.child('sub')), rv)
                    else:
                        raise S.Unsupported('store to %s' % l.text()[:40])
                elif k in ('BreakStmt', 'NullStmt'):
                    continue
                elif k == 'ReturnStmt':
                    raise Stop()
                else:
                    raise S.Unsupported('statement %s `%s`' % (k, st.text()[:50]))

    def spec(alg, name, K, closed):
        s_ = S.atom('s')
        vs = [alg.vec(S.atom('P0.x'), S.atom('P0.y'))]
        acc = alg.vec(S.P(0), S.P(0))
        horiz = name == 'ManhattanHorizontalFirst'
        for k in range(1, K + 1):
            prev = vs[-1]
            if name in ('ManhattanHorizontalFirst', 'ManhattanVerticalFirst'):
                d = S.mul(S.atom('d%d' % k), s_)
                vs.append(alg.vec(S.add(prev[1], d), prev[2]) if horiz else alg.vec(prev[1], S.add(prev[2], d)))
                horiz = not horiz
            else:
                dv = alg.vec(S.mul(s_, S.atom('x%d' % k)), S.mul(s_, S.atom('y%d' % k)))
                if name == 'Relative':
                    acc = alg.vadd(acc, dv)
                    dv = acc
                vs.append(alg.vadd(prev, dv))
        if closed and name in ('ManhattanHorizontalFirst', 'ManhattanVerticalFirst'):
            prev = vs[-1]
            vs.append(alg.vec(vs[0][1], prev[2]) if horiz else alg.vec(prev[1], vs[0][2]))
        return vs[1:]

    n = 0
    seen = set()
    for labels, stmts, top in tables.switch_arms(sw):
        for lab in labels:
            if not isinstance(lab, int) or lab not in names:
                continue
            name = names[lab]
            seen.add(name)
            bad = None
            gap = None
            for K in (3, 4):
                for closed in (False, True):
                    alg = PL(K, closed, lab)
                    try:
                        try:
                            alg.run(stmts)
                        except Stop:
                            pass
                    except (S.Unsupported, KeyError) as ex:
                        # a statement form the symbolic executor does not read: this arm is decided on concrete lists by
                        # check_point_list_model (interpretation); nothing is claimed symbolically
                        gap = str(ex)
                        n += 1
                        continue
                    want = spec(alg, name, K, closed)
                    got = [alg.mem.get(i) for i in range(len(want))]
                    for i, (g_, w_) in enumerate(zip(got, want)):
                        if g_ is None or not alg.equal(g_, w_):
                            bad = bad or '%d deltas%s: vertex %d is %s, the format defines %s' % (K, ', polygon' if closed else '', i + 1, alg.render(g_) if g_ is not None else 'never stored', alg.render(w_))
                    extra = [i for i in alg.mem if i >= len(want)]
                    if extra:
                        bad = bad or '%d deltas: %d vertices stored, the format defines %d' % (K, len(alg.mem) - 1, len(want))
                    if alg.count_add is None or not S.is_const(alg.count_add) or alg.count_add.get((), 0) != len(want):
                        bad = bad or '%d deltas%s: result.count grows by %s but %d vertices are stored' % (K, ', polygon' if closed else '', alg.render(alg.count_add) if alg.count_add is not None else 'nothing', len(want))
                    n += 1
            if gap is not None and bad is None:
                ctx.ok('R-ALGEBRA.pointlist', 'oasis_read_point_list/%s' % name, top.loc(), 'not in symbolic form (%s): decided on concrete lists by oasis_read_point_list/model' % gap)
                continue
            ctx.check(bad is None, 'R-ALGEBRA.pointlist', 'oasis_read_point_list/%s' % name, top.loc(), 'the decoded vertices equal the format\'s definition for 3 and 4 deltas, open and closed', bad)
    if len(seen) != 6:
        raise AnalysisBroken('oasis_read_point_list: %d of the 6 list types have a decoder arm' % len(seen))
    ctx.require('R-ALGEBRA.pointlist symbolic runs', n, 24)


def check_gds_real(ctx, db):
    e, d = db.fn('gdstk::gdsii_real_from_double'), db.fn('gdstk::gdsii_real_to_double')
    ctx.touch(e)
    ctx.touch(d)
    te = norm(clone.canon(e.body, e, ren=clone.Renamer(e, params_by_name=True)))
    td = norm(clone.canon(d.body, d, ren=clone.Renamer(d, params_by_name=True)))
    cons = {}
    m = re.search(r'pow\(16, \((\d+) - v\d+\)\)', te)
    cons['digits'] = int(m.group(1)) if m else None
    m = re.search(r'\(uint8_t\)\((\d+) \+ v\d+\)', te)
    cons['bias'] = int(m.group(1)) if m else None
    m = re.search(r'\(uint64_t\)v\d+ << (\d+)\)', te)
    cons['enc_shift'] = int(m.group(1)) if m else None
    m = re.search(r'& (\d+)\)\)', te)
    cons['enc_mask'] = int(m.group(1)) if m else None
    # decoder: evaluated (sa/minieval.py, exact rationals) on the boundary bit patterns of sign, excess-64 exponent and mantissa; it must
    # return (-1)^s * (mantissa / 2^56) * 16^(E - 64) - however the fields are extracted
    from .. import minieval as M
    from fractions import Fraction

    def hook(callee, args, node):
        if callee == 'exp2':
            a = args[0]
            return (Fraction(2) ** int(a) if int(a) == a else None,)
        return None
    dec_bad = None
    nd = 0
    for sgn in (0, 1):
        for E in (0, 1, 63, 64, 65, 127):
            for mant in (1, 1 << 52, 1 << 55, (1 << 56) - 1):
                real = (sgn << 63) | (E << 56) | mant
                try:
                    M.Mini(db, hook=hook).run(d.body, {d.params[0]['n']: real})
                    got = None
                except M.Return as rr:
                    got = rr.v
                except AnalysisBroken as ex:
                    raise AnalysisBroken('gdsii_real_to_double is not evaluable: %s' % ex)
                want = Fraction(-1 if sgn else 1) * Fraction(mant, 1 << 56) * (Fraction(16) ** (E - 64))
                nd += 1
                if got != want and dec_bad is None:
                    dec_bad = 'bits %016x decode to %s, the format defines %s' % (real, got, want)
    ctx.explored['valuations'] += nd
    ok = None not in cons.values()
    if ok:
        ok = cons['digits'] * 4 == cons['enc_shift'] == 56 and cons['enc_mask'] == (1 << 56) - 1 and cons['bias'] == 64
    ctx.check(bool(ok) and dec_bad is None, 'R-CONST', 'gdsii-real/paired-constants', e.loc(), 'encoder (bias 64, 14 hex digits, << 56, 56-bit mask) and decoder ((-1)^s x mantissa/2^56 x 16^(E-64) on %d boundary bit patterns) agree' % nd,
              'constants: %s; decoder: %s' % (cons, dec_bad))
    ok = "if (($value < 0))" in te and '(v0 = 128)' in te and '($value = (-$value))' in te
    ctx.check(ok and dec_bad is None, 'R-CONST', 'gdsii-real/sign', e.loc(), 'the sign is bit 63 on both sides and the magnitude is encoded')
    ctx.check('if (($value == 0))' in te and te.splitlines()[1].strip() == 'return 0', 'R-SHAPE', 'gdsii-real/zero', e.loc(), 'zero is encoded as all-zero bits before any logarithm is taken')
    # exponent normalisation, by partial evaluation in exact rational arithmetic (log2 of a power of two is exact; ceil/floor/pow on
    # rationals are exact): for +-2^j, j = -48..48 (which includes every exact power of 16) and a few 14-hex-digit values, the encoded
    # real decodes (by the format's definition) to the very value, with a normalised mantissa (first hex digit non-zero)
    from .. import minieval as M
    import math
    from fractions import Fraction

    def hook(callee, args, node):
        nm = (callee or '').split('::')[-1]
        if nm == 'log2':
            v = Fraction(args[0])
            if v > 0 and (v.numerator & (v.numerator - 1)) == 0 and (v.denominator & (v.denominator - 1)) == 0:
                return (Fraction(v.numerator.bit_length() - v.denominator.bit_length()),)
            return (Fraction(math.log2(float(v))),)
        if nm == 'ceil':
            return (Fraction(math.ceil(Fraction(args[0]))),)
        if nm == 'floor':
            return (Fraction(math.floor(Fraction(args[0]))),)
        if nm in ('pow', 'exp2', 'ldexp'):
            if nm == 'exp2':
                base, ex = Fraction(2), Fraction(args[0])
            elif nm == 'ldexp':
                return (Fraction(args[0]) * Fraction(2) ** int(args[1]),)
            else:
                base, ex = Fraction(args[0]), Fraction(args[1])
            if ex.denominator != 1:
                raise AnalysisBroken('gdsii_real_from_double: pow with a non-integral exponent %s' % ex)
            return (base ** int(ex),)
        if nm in ('fabs', 'abs'):
            return (abs(Fraction(args[0])),)
        if nm == 'frexp':
            raise AnalysisBroken('gdsii_real_from_double: frexp is not modelled')
        return None
    vals = [Fraction(2) ** j_ for j_ in range(-48, 49)] + [Fraction(3, 4), Fraction(5, 1024), Fraction(0xABCDEF, 1 << 8)]
    bad = None
    nenc = 0
    try:
        for mag in vals:
            for sgn in (1, -1):
                v = mag * sgn
                try:
                    M.Mini(db, hook=hook, c_ints=True).run(e.body, {e.params[0]['n']: v})
                    got = None
                except M.Return as rr:
                    got = rr.v
                nenc += 1
                if not isinstance(got, int):
                    raise AnalysisBroken('gdsii_real_from_double: result not evaluable for %s' % v)
                s_, E_, mant_ = got >> 63, (got >> 56) & 0x7F, got & ((1 << 56) - 1)
                dec = Fraction(-1 if s_ else 1) * Fraction(mant_, 1 << 56) * (Fraction(16) ** (E_ - 64))
                if (dec != v or mant_ < (1 << 52)) and bad is None:
                    bad = 'the value %s is encoded as %016x, which the format reads as %s%s' % (v, got, dec, '' if mant_ >= (1 << 52) else ' (mantissa not normalised)')
    except AnalysisBroken as ex:
        raise AnalysisBroken('gdsii_real_from_double is not evaluable: %s' % ex)
    ctx.explored['valuations'] += nenc
    ctx.check(bad is None, 'R-IDIOM', 'gdsii-real/exponent-normalisation', e.loc(), 'for %d exactly representable values (all powers of two 2^-48..2^48, hence every power of 16, both signs) the encoder produces bits that the format decodes to the same value, mantissa normalised' % nenc,
              'exponent normalisation is wrong: %s (at an exact power of 16 the mantissa must stay below 1, i.e. the exponent is floor(log16 v) + 1)' % bad)


def run(ctx):
    db = ctx.db
    ctx.memo('guards', {'src/oasis.cpp'}, check_guards, db)
    ctx.attempt(check_packing, ctx, db)
    ctx.attempt(check_directions, ctx, db)
    ctx.attempt(check_swaps, ctx, db)
    ctx.attempt(check_reals, ctx, db)
    ctx.attempt(check_closing_edge_source, ctx, db)
    ctx.attempt(check_point_lists, ctx, db)
    ctx.attempt(check_point_list_fsm, ctx, db)
    ctx.attempt(check_point_list_model, ctx, db)
    ctx.attempt(check_point_list_decoder, ctx, db)
    ctx.attempt(check_gds_real, ctx, db)


MANIFEST = dict(
    text='Decides structural necessary conditions of lossless number codecs: both varint decoders, interpreted on byte streams that reach every (depth, byte) decoder state with both extreme fillings of the earlier groups, flag every value beyond 63/64 bits with ErrorCode::Overflow instead of wrapping, decode every fitting value exactly without a flag, and never shift by the operand width or more (whatever statement form guard and loop take); writer and reader packing parameters agree at every call-site pair; the four varint routines, partially evaluated on 1277 boundary cases (all 7-bit group boundaries, every reserved-bit count), emit and decode exactly the format\'s bytes with no store outside the local buffer; the closing edge of a closed point list is formed from absolute coordinates (no CFG path from the in-place delta store to the subtraction); for every sign/equality class of (x, y) the 2-/3-/g-delta writers composed with the readers are the identity and the direction/point-list/real type codes equal the specification; the six byte-swap bodies are exactly the byte-reversal permutation (bit-provenance domain) under opposite host guards; the real-number writer forms have inverse reader arms and doubles are cast only after proved integral; closed Manhattan lists drop/re-create exactly one delta; the point-list type classifier, interpreted as a finite automaton over delta classes (horizontal, vertical, two diagonals, general), ends in every reachable state with a list type whose delta codec can represent all deltas seen and, for closed lists, the closing edge; every arm of the point-list decoder, executed symbolically for 3 and 4 deltas (cursors as indices into a symbolic vertex array, fresh symbol per decoded delta, open and closed), stores exactly the vertices the format defines and accounts for exactly that many; the 8-byte-real constants are paired and the exponent uses a normalising idiom. The one-ulp claim and behaviour at 64-bit/exponent boundaries of floating arithmetic are not decided.',
    note='Trusted: clang front end, gx, sa rules. Guards and writer conditions are pure integer expressions evaluated over finite abstract state sets (decoder states derived from the initialiser and step constants; sign/equality classes of (x, y)); no library code is executed. The 8-byte-real encoder is partially evaluated in exact rational arithmetic on every power of two 2^-48..2^48 and a few 14-digit values.',
    technique='interpretation of both varint decoders by the checker\'s AST interpreter (C integer widths; no compiled code is run) on byte streams that reach every (depth, byte) decoder state, against the format\'s value as an unbounded integer + partial evaluation of the four varint routines by the checker\'s AST interpreter (C integer widths, local buffers) on a boundary table compared with the format definition + decision-table composition (writer o reader) + bit-provenance abstract domain for swaps + CFG ordering rule (closing edge formed before the in-place delta conversion)',
    design='§4 C19')
