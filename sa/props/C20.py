"""C20 — containers and property lists: null-safety of list removal (check-then-use
contradiction), the four open-addressing tables as consistent siblings + payload obligations,
Array bookkeeping, order/depth of property-list copies. (DESIGN.md §4 C20)"""
import re
from .. import flow, clone
from ..facts import AnalysisBroken, flat_fields
from ..flow import lvalue_key, is_assign, pretty_key
from ..controls import load_controls

EXPLANATION = ('(1) R-NULL check-then-use on every function of property.cpp (a pointer the function itself null-tests, '
               're-assigned from a list tail / NULL and dereferenced without a test). (2) The four hash tables Map<T>, Set<T>, '
               'TagMap, StyleMap are model-checked by interpretation of their methods (sa/tablemodel.py, sa/minieval.py): every table state '
               'reachable from the zeroed table under insert / delete over a small key universe with chosen hashes (clusters collide, wrap '
               'around the end of the array, survive the resize at the fifth insertion), two values per key on a smaller universe, and a '
               'long fill-and-drain history through several resizes. In every state: count, no duplicate key, values, the linear-probing '
               'invariant (no empty slot between the home slot of a key and the slot it occupies), get / has / next / copy_from / clear '
               'against a reference dictionary; no failed assertion, no slot outside the array, no hash % 0, no probe that does not end, no '
               'released string left in a slot; TagMap::set(k, k) retracts the rule. Payload obligations per table: del/cluster-move '
               'empties the old slot and writes every field of the item struct in the new slot; set/add writes every field. '
               '(3) Array<T>: grow-before-shift in insert, exactly one count decrement in remove/remove_unordered, copy_from '
               'allocates count items. (4) property-list copies append at the tail and deep-copy, remove_property leaves the function right after the first removal unless all occurrences were requested, and set_gds_property / get_or_add_property either update an existing entry or link a new one, never both (CFG reachability). '
               'The table model is exhaustive for the explored universes (5-6 keys, capacities 8 and 16) and one long history; larger tables and other hash assignments are not explored, and sort is decided only as far as the heap index discipline.')
ASSUMPTIONS = ['the harness of sa/tablemodel.py answers allocate_clear / free_allocation / copy_string / strcmp / hash; hash() itself is assumed total and deterministic (not analysed)',
               'a defect of a table that needs more than six keys, a capacity above 64 or a particular hash pattern outside the explored ones to show is not found']
XREF_FILES = ['src/property.cpp', 'src/style.cpp']

# table name -> (record-qualified-name regex, item struct regex, insert method)
TABLES = {
    'Map': dict(rec=r'^gdstk::Map<.*>$', item=r'MapItem<', insert='set', empty_field='key'),
    'Set': dict(rec=r'^gdstk::Set<.*>$', item=r'SetItem<', insert='add', empty_field='valid'),
    'TagMap': dict(rec=r'^gdstk::TagMap$', item=r'TagMapItem', insert='set', empty_field=None),
    'StyleMap': dict(rec=r'^gdstk::StyleMap$', item=r'\bStyle\b', insert='set', empty_field='value'),
}
TABLE_FILES = {'include/gdstk/map.hpp', 'include/gdstk/set.hpp', 'include/gdstk/tagmap.hpp', 'src/style.cpp', 'include/gdstk/style.hpp'}
METHODS = ['get_slot', 'insert', 'del', 'resize', 'next', 'has', 'copy_from']


# decided for every list of up to four entries by R-MODEL.list; the CFG argument alarmed on one synthetic rewrite (a condition named by a
# temporary whose value the boolean domain loses) and is kept as evidence only
ADVISORY = [('R-MUSTPASS', r'^remove_property/single-occurrence-exit')]


def is_slot_ptr(n, spec):
    t = n.t or ''
    return '*' in t and re.search(spec['item'], t) is not None


def occupied_test(n, tname, spec):
    """Recognise the table's occupied/empty predicate on a slot pointer.
    Returns (slot_text_node, occupied_when_true) or None."""
    neg = False
    x = n
    while x is not None and x.k == 'UnaryOperator' and x.op == '!':
        neg = not neg
        x = x.child('sub')
    if x is None:
        return None

    def slot_of(m, field):
        if m is not None and m.k == 'MemberExpr' and m.n == field and m.arrow and is_slot_ptr(m.child('base'), spec):
            return m.child('base')
        return None
    if tname == 'Map' or tname == 'StyleMap':
        f = spec['empty_field']
        if x.k == 'ImplicitCastExpr' and x.cast == 'PointerToBoolean':
            s = slot_of(x.child('sub'), f)
            if s is not None:
                return s, (not neg)
        if x.k == 'BinaryOperator' and x.op in ('==', '!='):
            l, r = x.child('lhs'), x.child('rhs')
            for a, b in ((l, r), (r, l)):
                s = slot_of(a, f)
                if s is not None and b is not None and b.is_null_const():
                    return s, ((x.op == '!=') != neg)
    elif tname == 'Set':
        s = slot_of(x, 'valid')
        if s is not None:
            return s, (not neg)
    elif tname == 'TagMap':
        if x.k == 'BinaryOperator' and x.op in ('==', '!='):
            l, r = x.child('lhs'), x.child('rhs')
            sl, sr = slot_of(l, 'key'), slot_of(r, 'value')
            if sl is None or sr is None:
                sl, sr = slot_of(l, 'value'), slot_of(r, 'key')
            if sl is not None and sr is not None and lvalue_key(sl) == lvalue_key(sr):
                return sl, ((x.op == '!=') != neg)
    return None



def method_of(db, tname, spec, m):
    name = spec['insert'] if m == 'insert' else ('has_key' if (m == 'has' and tname in ('Map', 'TagMap')) else ('has_value' if m == 'has' else m))
    out = []
    for f in db.functions:
        if f.rec and re.match(spec['rec'], f.rec) and f.name == name:
            out.append(f)
    return out


def check_tables(ctx, db, rule='R-MODEL.table'):
    """The four tables, model-checked by interpretation of their methods (sa/tablemodel.py): breadth-first over every table
    state reachable from the zeroed table under insert / delete of the keys of a small universe whose hashes are chosen (three
    keys share the last home slot, so clusters wrap around the end of the array; the fifth insertion resizes), with two values
    per key on a smaller universe (replacement), plus one long fill-and-drain history through several resizes. In every
    state: count, no duplicate, the linear-probing invariant (every entry reachable from its home slot), look-ups, iteration,
    copy_from and clear against a reference dictionary; no failed assertion, no slot outside the array, no `% 0`, no
    non-terminating probe, no released string left in a slot. The statement form of the methods does not enter."""
    from .. import tablemodel as TM
    full = ctx.tier == 'thorough'
    total_states = total_ops = 0
    home = [7, 15, 23, 0, 6, 14, 1]
    for tname in ('Map', 'Set', 'TagMap', 'StyleMap'):
        spec = TM.SPECS[tname]
        try:
            h = TM.Harness(db, tname)
        except AnalysisBroken:
            raise
        for f in h.fns.values():
            ctx.touch(f)
        K = (lambda i_: 'k%d' % i_) if spec['kind'] == 'str' else (lambda i_: i_ + 1)
        vals = {'Map': [11, 12], 'Set': [None], 'TagMap': [100, 101], 'StyleMap': ['x', 'y']}[tname]
        runs = [(6 if full else 5, vals[:1]), (4 if full else 3, vals)]
        if tname == 'TagMap':
            runs.append((3, [100, 2]))          # a value equal to another key, and set(k, k) through the identity rule below
        anchor = h.fns[spec['insert']]
        for nkeys, vs in runs:
            uni = [K(i_) for i_ in range(nkeys)]
            hs = {K(i_): home[i_] for i_ in range(nkeys)}
            key = '%s/states|%d keys, %d value%s' % (tname, nkeys, len(vs), '' if len(vs) == 1 else 's')
            try:
                st, ops = h.explore(uni, hs, vs if tname != 'TagMap' or vs != [100, 2] else [100, 2])
                total_states += st
                total_ops += ops
                ctx.ok(rule, key, anchor.loc(), '%d states, %d operations: every state is a faithful table of the reference dictionary' % (st, ops))
            except TM.Failed as ex:
                ctx.violation(rule, key, anchor.loc(), '%s does not behave as a %s: %s' % (tname, 'set' if tname == 'Set' else 'map', ex))
        key = '%s/fill-and-drain' % tname
        try:
            ops = h.fill_and_drain(40 if full else 24)
            total_ops += ops
            ctx.ok(rule, key, anchor.loc(), '%d operations through every resize and back to the empty table' % ops)
        except TM.Failed as ex:
            ctx.violation(rule, key, anchor.loc(), '%s does not behave as a %s: %s' % (tname, 'set' if tname == 'Set' else 'map', ex))
        if tname == 'TagMap':
            # set(k, k) retracts the rule for k: the identity mapping is the representation of an empty slot
            try:
                hs = {1: 7, 2: 15, 3: 23}
                h.hashes = hs
                h.keep = []
                t = TM.M.Obj(capacity=0, count=0, items=0)
                h.freed = set()
                for k_, v_ in ((1, 100), (2, 100), (3, 100), (2, 2)):
                    h.call(t, 'set', k_, v_)
                h.check_state(t, {1: 100, 3: 100}, 'set(1,100) -> set(2,100) -> set(3,100) -> set(2,2)')
                h.call(t, 'set', 5 if False else 1, 1)
                h.check_state(t, {3: 100}, '... -> set(1,1)')
                ctx.ok(rule, 'TagMap/identity-retracts', anchor.loc(), 'set(k, k) removes the rule for k')
            except TM.Failed as ex:
                ctx.violation(rule, 'TagMap/identity-retracts', anchor.loc(), 'TagMap::set(k, k) must delete the rule for k (the identity mapping is the empty-slot marker): %s' % ex)
    ctx.explored['valuations'] += total_ops
    ctx.require('R-MODEL.table states explored', total_states, 600)
    ctx.require('R-MODEL.table operations interpreted', total_ops, 6000)


def check_payload(ctx, db, rule='R-PAYLOAD'):
    n = 0
    for tname, spec in TABLES.items():
        # item struct fields
        item_rec = None
        for t, r in db.records.items():
            if re.search(spec['item'], t) and (tname not in ('Map', 'Set') or '<' in t) and not re.search(r'Map<|Set<|StyleMap|TagMap$', t):
                item_rec = r
                break
        if item_rec is None:
            raise AnalysisBroken('item struct of %s not found' % tname)
        fields = [f[0] for f in flat_fields(item_rec)]
        # --- insert: every field written on the slot; count++ only under EMPTY
        for f in method_of(db, tname, spec, 'insert'):
            n += 1
            slot_stores = set()
            for s in f.walk():
                if is_assign(s) and s.child('lhs').k == 'MemberExpr' and s.child('lhs').arrow and is_slot_ptr(s.child('lhs').child('base'), spec):
                    slot_stores.add(s.child('lhs').n)
            ctx.check(set(fields) <= slot_stores, rule, '%s::%s/writes-all-fields' % (tname, f.name), f.loc(),
                      'insert writes every field of the item {%s}' % ', '.join(fields), 'insert does not write item field(s) %s' % sorted(set(fields) - slot_stores))
            incs = [u for u in f.walk() if u.k == 'UnaryOperator' and u.op in ('post++', '++') and lvalue_key(u.child('sub')) == 'this->count']
            ok = len(incs) == 1
            if ok:
                anc = [a for a in incs[0].ancestors() if a.k == 'IfStmt']
                ok = False
                for a in anc:
                    ot = occupied_test(a.child('cond'), tname, spec)
                    if ot is not None:
                        in_then = any(x is incs[0] for x in a.child('then').walk())
                        ok = (in_then and not ot[1]) or ((not in_then) and ot[1])
            ctx.check(ok, rule, '%s::%s/count++-iff-empty' % (tname, f.name), f.loc(), 'count is incremented exactly once, under the empty-slot test')
        # --- del: empties the found slot before count--, empties the moved-from slot before get_slot, fills every field of the new slot
        for f in method_of(db, tname, spec, 'del'):
            n += 1
            loop = next((l for l in f.walk() if l.k == 'WhileStmt'), None)
            if loop is None:
                raise AnalysisBroken('%s::del: re-insertion loop not found' % tname)
            pre = [s for s in f.body.c if s is not None and s.pos < loop.pos]
            body = loop.child('body')
            ok1 = _empties(pre, tname, spec)
            ctx.check(ok1, rule, '%s::del/empties-found-slot' % tname, f.loc(), 'the found slot is made empty before the cluster is re-inserted')
            gs = next((c for c in body.walk() if c.k == 'CXXMemberCallExpr' and (c.callee or '').endswith('::get_slot')), None)
            before = [s for s in body.c if s is not None and gs is not None and s.pos < gs.pos and not any(x is gs for x in s.walk())]
            ok2 = gs is not None and _empties(before, tname, spec)
            ctx.check(ok2, rule, '%s::del/empties-moved-slot' % tname, loop.loc(), 'each moved item leaves an empty slot behind before its new slot is looked up')
            newvar = gs.parent if gs is not None and gs.parent.k == 'VarDecl' else None
            stores = set()
            if newvar is not None:
                for s in body.walk():
                    if is_assign(s) and s.child('lhs').k == 'MemberExpr' and lvalue_key(s.child('lhs').child('base')) == 'v%d:%s' % (newvar.d, newvar.n):
                        stores.add(s.child('lhs').n)
            ctx.check(set(fields) <= stores, rule, '%s::del/refills-all-fields' % tname, loop.loc(), 'the re-inserted item gets every field {%s}' % ', '.join(fields),
                      'cluster re-insertion does not write field(s) %s of the new slot' % sorted(set(fields) - stores))
        # --- clear: zeroes all three fields and frees the array (+ owned payload)
        for f in [x for x in db.functions if x.rec and re.match(spec['rec'], x.rec) and x.name == 'clear']:
            n += 1
            z = {lvalue_key(s.child('lhs')) for s in f.walk() if is_assign(s) and (s.child('rhs').cv == 0 or s.child('rhs').is_null_const())}
            frees = [c for c in f.calls('gdstk::free_allocation')]
            frees_items = any(lvalue_key(flow._strip_casts(c.args[0])) == 'this->items' for c in frees)
            ok = {'this->items', 'this->capacity', 'this->count'} <= z and frees_items
            owned = {'Map': 'key', 'StyleMap': 'value'}.get(tname)
            if owned:
                ok = ok and any(getattr(flow._strip_casts(c.args[0]), 'n', None) == owned for c in frees)
            ctx.check(ok, rule, '%s::clear/%s' % (tname, f.rec), f.loc(), 'clear frees owned payload and the array and zeroes items/capacity/count')
    ctx.require('R-PAYLOAD methods', n, 12)


def _empties(stmts, tname, spec):
    """Do these statements make a slot empty under the table's predicate?"""
    asg = []
    for s in stmts:
        for x in s.walk():
            if is_assign(x) and x.op == '=' and x.child('lhs').k == 'MemberExpr' and x.child('lhs').arrow and is_slot_ptr(x.child('lhs').child('base'), spec):
                asg.append(x)
    if tname in ('Map', 'StyleMap'):
        f = spec['empty_field']
        return any(a.child('lhs').n == f and a.child('rhs').is_null_const() for a in asg)
    if tname == 'Set':
        return any(a.child('lhs').n == 'valid' and a.child('rhs').k == 'CXXBoolLiteralExpr' and a.child('rhs').v is False for a in asg)
    if tname == 'TagMap':
        # key = value (field copy) or both set to the same constant
        for a in asg:
            r = flow._strip_casts(a.child('rhs'))
            if a.child('lhs').n == 'key' and r.k == 'MemberExpr' and r.n == 'value' and lvalue_key(r.child('base')) == lvalue_key(a.child('lhs').child('base')):
                return True
        ks = [a.child('rhs').cv for a in asg if a.child('lhs').n == 'key' and a.child('rhs').cv is not None]
        vs = [a.child('rhs').cv for a in asg if a.child('lhs').n == 'value' and a.child('rhs').cv is not None]
        return bool(ks) and bool(vs) and ks[-1] == vs[-1]
    return False


def check_array(ctx, db, rule='R-ARRAY'):
    n = 0
    seen = set()
    for f in db.functions:
        if not (f.rec or '').startswith('gdstk::Array<'):
            continue
        if f.name not in ('insert', 'remove', 'remove_unordered', 'copy_from', 'append', 'ensure_slots', 'extend'):
            continue
        txt = clone.canon(f.body, f)
        txt = re.sub(r'sizeof\([^)]*\)', 'sizeof(T)', txt)
        txt = re.sub(r'\((?:const )?[\w:<> ,*]+\*\)', '(T*)', txt)
        if (f.name, txt) in seen:
            continue
        seen.add((f.name, txt))
        ctx.touch(f)
        n += 1
        decs = [u for u in f.walk() if u.k == 'UnaryOperator' and u.op in ('--', 'post--') and lvalue_key(u.child('sub')) == 'this->count']
        incs = [u for u in f.walk() if (u.k == 'UnaryOperator' and u.op in ('++', 'post++') and lvalue_key(u.child('sub')) == 'this->count')]
        key = '%s/%s' % (f.rec.replace('gdstk::', ''), f.name)
        if f.name in ('remove', 'remove_unordered'):
            ctx.check(len(decs) == 1 and not incs, rule, key + '/count--once', f.loc(), 'count is decremented exactly once')
            if f.name == 'remove':
                mm = next(iter(f.calls('memmove')), None)
                ok = mm is not None and '(this->items + p0)' in mm.args[0].text(clone.Renamer(f)) and '((this->items + p0) + 1)' in mm.args[1].text(clone.Renamer(f))
                ctx.check(ok, rule, key + '/shift-down', f.loc(), 'remove shifts the tail down by one from index+1 to index')
        elif f.name == 'insert':
            # growth test precedes the shift; shift moves [index, count) up by one; count++ on that branch
            g = f.cfg
            grow = next((s for s in f.walk() if is_assign(s) and lvalue_key(s.child('lhs')) == 'this->items'), None)
            mm = next(iter(f.calls('memmove')), None)
            ok = grow is not None and mm is not None and grow.pos < mm.pos and any(i.k == 'IfStmt' and _full_test(i.child('cond')) for i in grow.ancestors())
            ctx.check(ok, rule, key + '/grow-before-shift', f.loc(), 'capacity is grown (when full) before the tail is shifted')
            r = clone.Renamer(f)
            ok2 = mm is not None and '((this->items + p0) + 1)' in mm.args[0].text(r) and mm.args[1].text(r).endswith('(this->items + p0)') and '(this->count - p0)' in mm.args[2].text(r)
            ctx.check(ok2, rule, key + '/shift-up', f.loc(), 'insert shifts [index, count) up by one')
            ctx.check(len(incs) == 1 or any(True for c in f.calls() if (c.callee or '').endswith('append_unsafe')), rule, key + '/count++', f.loc(), 'count is incremented on both branches')
        elif f.name == 'copy_from':
            al = next((c for c in f.calls('gdstk::allocate')), None)
            cp = next(iter(f.calls('memcpy')), None)
            ok = al is not None and cp is not None and 'this->capacity' in al.args[0].text() and any(
                is_assign(s) and lvalue_key(s.child('lhs')) == 'this->capacity' and s.child('rhs').text().endswith('.count') for s in f.walk()) and 'this->count' in cp.args[2].text()
            ctx.check(ok, rule, key + '/allocates-count', f.loc(), 'copy_from allocates src.count items and copies count items')
        elif f.name == 'append':
            ok = any(i.k == 'IfStmt' and _full_test(i.child('cond')) for i in f.walk())
            ctx.check(ok, rule, key + '/grow-when-full', f.loc(), 'append grows exactly when count == capacity')
        elif f.name == 'ensure_slots':
            ok = any(i.k == 'IfStmt' and i.child('cond').text(clone.Renamer(f)) == '(this->capacity < (this->count + p0))' for i in f.walk())
            ctx.check(ok, rule, key + '/guard', f.loc(), 'ensure_slots grows when capacity < count + free_slots')
        elif f.name == 'extend':
            es = next((c for c in f.calls() if (c.callee or '').endswith('ensure_slots')), None)
            cp = next(iter(f.calls('memcpy')), None)
            ok = es is not None and cp is not None and es.pos < cp.pos and '(this->items + this->count)' in cp.args[0].text()
            ctx.check(ok, rule, key + '/reserve-then-copy', f.loc(), 'extend reserves before copying to items + count')
    ctx.require('R-ARRAY distinct method bodies', n, 7)


def check_property_lists(ctx, db, nullable, rule='R-NULL'):
    n = 0
    for f in db.functions:
        if f.file.endswith('src/property.cpp'):
            ctx.touch(f)
            n += 1
            flow.check_nullable_uses(ctx, f, nullable, rule=rule, seeds_next=True)
    ctx.require('R-NULL property.cpp functions', n, 19)
    # order / depth of copies: append at the tail (dst->next = new; dst = dst->next), strings deep-copied
    for qn, strf in (('gdstk::properties_copy', 'name'), ('gdstk::property_values_copy', 'bytes')):
        f = db.fn(qn)
        tail = any(is_assign(s) and s.child('lhs').k == 'MemberExpr' and s.child('lhs').n == 'next' and s.child('rhs').text().find('allocate') >= 0 for s in f.walk())
        adv = any(is_assign(s) and s.child('rhs').k == 'MemberExpr' and s.child('rhs').n == 'next' and lvalue_key(s.child('lhs')) == lvalue_key(s.child('rhs').child('base')) and
                  lvalue_key(s.child('lhs')) not in ('v%d:%s' % (p['d'], p['n']) for p in f.params) for s in f.walk())
        term = any(is_assign(s) and s.child('lhs').k == 'MemberExpr' and s.child('lhs').n == 'next' and s.child('rhs').is_null_const() for s in f.walk())
        # the same through a link pointer: `T** link = &head; ... *link = node; link = &node->next;`
        sc = flow._strip_casts
        links = {lvalue_key(sc(s.child('lhs'))) for s in f.walk() if is_assign(s) and s.op == '=' and sc(s.child('rhs')).k == 'UnaryOperator' and sc(s.child('rhs')).op == '&' and
                 sc(sc(s.child('rhs')).child('sub')).k == 'MemberExpr' and sc(sc(s.child('rhs')).child('sub')).n == 'next'}
        stores = {lvalue_key(sc(sc(s.child('lhs')).child('sub'))) for s in f.walk() if is_assign(s) and s.op == '=' and sc(s.child('lhs')).k == 'UnaryOperator' and sc(s.child('lhs')).op == '*'}
        via_link = bool(links & stores)
        ctx.check(((tail and adv) or via_link) and term, 'R-COPY.list', qn + '/tail-append', f.loc(), 'copy appends at the tail (order preserved) and terminates the list')
        deep = False
        for s in f.walk():
            if is_assign(s) and s.child('lhs').k == 'MemberExpr' and s.child('lhs').n == strf:
                r = s.child('rhs').text()
                deep = deep or ('copy_string' in r or 'allocate' in r)
        ctx.check(deep, 'R-COPY.list', qn + '/deep-' + strf, f.loc(), '`%s` is deep-copied (copy_string / allocate+memcpy), never aliased' % strf)
    f = db.fn('gdstk::get_or_add_property')
    pre = any(is_assign(s) and s.child('lhs').k == 'MemberExpr' and s.child('lhs').n == 'next' and s.child('rhs').k == 'DeclRefExpr' and s.child('rhs').dk == 'param' for s in f.walk())
    ctx.check(pre, 'R-COPY.list', 'gdstk::get_or_add_property/prepends', f.loc(), 'a new property is linked in front of the list head')


def _full_test(cond):
    """the condition contains `count == capacity` (either operand order)"""
    return any(x.k == 'BinaryOperator' and x.op == '==' and {lvalue_key(flow._strip_casts(x.child('lhs'))), lvalue_key(flow._strip_casts(x.child('rhs')))} == {'this->count', 'this->capacity'} for x in cond.walk())


def check_heap(ctx, db):
    ctx.memo('sort', {'include/gdstk/sort.hpp'}, check_sort_model, db)


def check_sort_model(ctx, db):
    """gdstk::sort and its parts interpreted (sa/minieval; the comparator is a Python function handed in as the function pointer) in
    the instantiation for double: heap_sort and insertion_sort on every array over {0, 1, 2} of up to five (thorough: six) elements
    and on rotations of 0..n-1, intro_sort with depth budgets 0, 1 and 3 on arrays of 17 to 40 elements (ascending, descending,
    organ-pipe, constant, pseudo-random, median-of-three killers), sort() on the same, with `<` and with `>`. Required: the
    result is the sorted permutation of the input; no element outside the array is touched. Index conventions (inclusive or
    exclusive ends), loop and exit forms do not enter."""
    from .. import minieval as M
    import itertools as it
    full = ctx.tier == 'thorough'

    def fn(name, nparams):
        c = [f_ for f_ in db.functions if f_.qn == 'gdstk::' + name and f_.targs == 'double' and len(f_.params) == nparams and f_.body is not None and 'Array' not in (f_.params[0].get('t') or '')]
        if not c:
            raise AnalysisBroken('sort.hpp: %s<double> with %d parameters not found' % (name, nparams))
        ctx.touch(c[0])
        return c[0]
    hs, ins, intro, srt = fn('heap_sort', 3), fn('insertion_sort', 3), fn('intro_sort', 4), fn('sort', 3)
    for nm in ('sift_down', 'leaf_search', 'partition'):
        fn(nm, 4 if nm != 'partition' else 3)

    def run(f_, arr, *extra):
        lst = list(arr)
        mi = M.Mini(db, budget=400000)
        mi.writable.add(id(lst))
        env = {f_.params[0]['n']: M.Ptr(lst, 0), f_.params[1]['n']: len(lst)}
        for p_, v in zip(f_.params[2:], extra):
            env[p_['n']] = v
        try:
            mi.run(f_.body, env)
        except M.Return:
            pass
        return lst
    lt, gt = (lambda a, b: int(a < b)), (lambda a, b: int(a > b))
    bad = []
    runs = 0
    small = [list(a) for k in range(0, (7 if full else 6)) for a in it.product(range(3), repeat=k)] + [list(range(k, n)) + list(range(k)) for n in (4, 5, 6, 7) for k in range(n)]
    for f_, label in ((hs, 'heap_sort'), (ins, 'insertion_sort')):
        for a in small:
            for cmp_, want in ((lt, sorted(a)), (gt, sorted(a, reverse=True))):
                if cmp_ is gt and len(a) > 4:
                    continue
                runs += 1
                try:
                    r = run(f_, a, cmp_)
                except M.OutOfBounds as ex:
                    r = str(ex)
                if r != want and len(bad) < 4:
                    bad.append('%s(%s, %s) gives %s' % (label, a, '<' if cmp_ is lt else '>', r))
    big = []
    for n in (17, 18, 23, 32, 40):
        x = 12345
        rnd = []
        for _ in range(n):
            x = (x * 1103515245 + 12345) % (1 << 31)
            rnd.append(x % 50)
        big += [list(range(n)), list(range(n, 0, -1)), list(range(n // 2)) + list(range(n - n // 2, 0, -1)), [7] * n, rnd, [i_ % 2 for i_ in range(n)], list(range(1, n, 2)) + list(range(0, n, 2)), list(range(n - 1)) + [n + 5]]
    for a in big:
        for depth in (0, 1, 3):
            runs += 1
            try:
                r = run(intro, a, depth, lt)
            except M.OutOfBounds as ex:
                r = str(ex)
            if r != sorted(a) and len(bad) < 4:
                bad.append('intro_sort(%s, depth budget %d) gives %s' % (a, depth, r))
        runs += 1
        try:
            r = run(srt, a, gt)
        except M.OutOfBounds as ex:
            r = str(ex)
        if r != sorted(a, reverse=True) and len(bad) < 4:
            bad.append('sort(%s, >) gives %s' % (a, r))
    ctx.explored['valuations'] += runs
    ctx.check(not bad, 'R-MODEL.sort', 'sort.hpp/orders-every-array', hs.loc(), 'interpreted on %d arrays: heap_sort, insertion_sort, intro_sort (heap fallback and partition paths) and sort return the sorted permutation of their input' % runs,
              'sorting is wrong: ' + '; '.join(bad[:3]))
    ctx.require('R-MODEL.sort arrays interpreted', runs, 700)


def check_single_removal(ctx, db):
    """remove_property(..., all_occurences=false) removes at most one entry: each removal is immediately
    followed by the function's exit under `!all_occurences` (a `break` would fall into the next removal loop)."""
    f = db.fn('gdstk::remove_property')
    ctx.touch(f)
    norm = lambda t: re.sub(r'<[A-Za-z]+:(?!:)[^>]*>', '', t).replace('gdstk::', '')
    incs = [x for x in f.walk() if x.k == 'UnaryOperator' and x.op in ('++', 'post++') and norm(x.child('sub').text()) == 'removed']
    # Abstract interpretation over the CFG with all_occurences = false: the state is (removals so far capped at 2, known values of
    # the boolean locals); branch conditions over these booleans and the parameter prune infeasible edges. Early returns, a `done`
    # flag with a single exit, or a mix give the same answer: no state with two removals is reachable.
    g = f.cfg
    inc_ids = {x.id for x in incs}
    ao = next((p_ for p_ in f.params if p_['n'] == 'all_occurences'), None)
    if ao is None or not incs:
        raise AnalysisBroken('remove_property: parameter all_occurences / removal counter not found')
    flagd = {v.d: v.n for v in f.walk() if v.k == 'VarDecl' and (v.ct or v.t or '').replace('const ', '').strip() == 'bool'}

    def bval(e, flags):
        e = flow._strip_casts(e)
        if e is None:
            return None
        if e.k == 'ParenExpr':
            return bval(e.c[0], flags)
        if e.k == 'CXXBoolLiteralExpr':
            return bool(e.v)
        if e.k == 'UnaryOperator' and e.op == '!':
            v = bval(e.child('sub'), flags)
            return None if v is None else (not v)
        if e.k == 'DeclRefExpr' and e.dk == 'param' and e.d == ao['d']:
            return False
        if e.k == 'DeclRefExpr' and e.d in flagd:
            return dict(flags).get(e.d)
        if e.k == 'BinaryOperator' and e.op in ('&&', '||'):
            a, b = bval(e.child('lhs'), flags), bval(e.child('rhs'), flags)
            if e.op == '&&':
                return False if (a is False or b is False) else (True if (a and b) else None)
            return True if (a is True or b is True) else (False if (a is False and b is False) else None)
        return None

    def setflag(flags, d, v):
        fl = dict(flags)
        if v is None:
            fl.pop(d, None)
        else:
            fl[d] = v
        return tuple(sorted(fl.items()))

    def transfer(n, st):
        out = set()
        for cnt, flags in st:
            if n.id in inc_ids:
                out.add((min(2, cnt + 1), flags))
            elif n.k == 'VarDecl' and n.d in flagd:
                out.add((cnt, setflag(flags, n.d, bval(n.child('init'), flags) if n.child('init') is not None else None)))
            elif is_assign(n) and n.op == '=' and flow._strip_casts(n.child('lhs')).k == 'DeclRefExpr' and flow._strip_casts(n.child('lhs')).d in flagd:
                out.add((cnt, setflag(flags, flow._strip_casts(n.child('lhs')).d, bval(n.child('rhs'), flags))))
            else:
                out.add((cnt, flags))
        return frozenset(out)

    def refine(blk, k_, succ, st):
        if len(blk.s) != 2 or blk.tc is None:
            return st
        c = g.branch_cond(blk)
        want = (k_ == 0)
        out = set()
        for cnt, flags in st:
            v = bval(c, flags)
            if v is not None and v != want:
                continue
            fl = flags
            c0 = flow._strip_casts(c)
            neg = False
            while c0 is not None and c0.k == 'UnaryOperator' and c0.op == '!':
                neg = not neg
                c0 = flow._strip_casts(c0.child('sub'))
            if c0 is not None and c0.k == 'DeclRefExpr' and c0.d in flagd and v is None:
                fl = setflag(flags, c0.d, want != neg)
            out.add((cnt, fl))
        return frozenset(out) if out else None
    ins, _ = g.forward(frozenset({(0, ())}), transfer, refine)
    twice = any(cnt >= 2 for st in ins.values() for cnt, _fl in st)
    ctx.explored['valuations'] += sum(len(st) for st in ins.values())
    ctx.check(len(incs) >= 1 and not twice, 'R-MUSTPASS', 'remove_property/single-occurrence-exit', f.loc(), 'with all_occurences == false no path removes a second entry (%d removal sites; abstract interpretation over the CFG with the boolean locals tracked)' % len(incs),
              'with all_occurences == false a second removal is reachable after the first: more than one entry is removed')


def check_key_widths(ctx, db):
    """Keys are compared at the width they are stored with (R-WIDTH): no comparison in the property-list and table code
    narrows a non-constant integer by an explicit cast (a 64-bit attribute compared as 16 bits answers for every key that agrees
    modulo 65536). File-local helpers are followed. Controls: controls/widths.cpp."""
    from .. import widths
    fns = [f for f in db.functions if f.body is not None and (f.relfile() in ('src/property.cpp', 'src/style.cpp') or f.relfile() in ('include/gdstk/map.hpp', 'include/gdstk/set.hpp', 'include/gdstk/tagmap.hpp'))]
    n = 0
    seen = set()
    for f, _w in db.with_helpers(fns):
        if (f.file, f.line) in seen:
            continue
        seen.add((f.file, f.line))
        n += 1
        for cmp_, cast, ws, wt in widths.narrowed_comparisons(f):
            ctx.violation('R-WIDTH', '%s/narrowed-comparison@%s' % (f.qn.replace('gdstk::', ''), cmp_.loc()), cmp_.loc(),
                          'a %d-bit value is cast to %d bits inside the comparison `%s`: keys that agree modulo 2^%d are taken for each other' % (ws, wt, norm_text(cmp_), wt))
    ctx.ok('R-WIDTH', 'property-and-table-code/no-narrowed-comparisons', '', 'no comparison narrows a stored key (%d functions incl. helpers)' % n)
    ctx.require('R-WIDTH functions scanned', n, 30)
    cdb = load_controls()
    ctx.control('ctl_key_narrowed_bad (R-WIDTH fires)', bool(widths.narrowed_comparisons(cdb.fn('controls::ctl_key_narrowed_bad'))))
    ctx.control('ctl_key_narrowed_ok (R-WIDTH silent)', not widths.narrowed_comparisons(cdb.fn('controls::ctl_key_narrowed_ok')))


def norm_text(n):
    return re.sub(r'<[A-Za-z]+:(?!:)[^>]*>', '', n.text()).replace('gdstk::', '')[:100]


def check_update_xor_insert(ctx, db):
    """set_gds_property either overwrites the value of an existing attribute or links a new entry - never both:
    no CFG path leads from the in-place update to the statement that links the new list head."""
    f = db.fn('gdstk::set_gds_property')
    ctx.touch(f)
    g = f.cfg
    norm = lambda t: re.sub(r'<[A-Za-z]+:(?!:)[^>]*>', '', t).replace('gdstk::', '')
    # the search loop: the outermost loop that holds the in-place update, in whatever loop form and block nesting
    loop = next((l for l in f.walk() if l.k in ('ForStmt', 'WhileStmt', 'DoStmt') and any(c.k == 'CallExpr' and c.callee in ('memcpy', 'gdstk::reallocate') for c in l.walk())), None)
    link = next((x for x in f.walk() if is_assign(x) and norm(x.child('lhs').text()) == 'properties'), None)
    upd = [c for c in (loop.walk() if loop is not None else []) if c.k == 'CallExpr' and c.callee in ('memcpy', 'gdstk::reallocate')]
    if loop is None or link is None or not upd:
        raise AnalysisBroken('set_gds_property: search loop / in-place update / head link not found')
    start = g.where_node(upd[-1])
    goal = g.where_node(link)
    if start is None or goal is None:
        raise AnalysisBroken('set_gds_property: statements not located in the CFG')
    path = g.path_avoiding(start, lambda b, i, nid: (b, i) == goal, lambda b, i, nid: False)
    ctx.check(path is None, 'R-MUSTPASS', 'set_gds_property/update-xor-insert', upd[-1].loc(), 'after an existing attribute has been overwritten in place the function is left: the code that links a new entry is unreachable from there',
              'after overwriting an existing attribute control still reaches `properties = property` (%s): the list gets a second entry for the same attribute' % (g.describe_path(path) if path else ''))
    # get_or_add_property: the branch that re-uses an existing property returns before a new one is linked
    h = db.fn('gdstk::get_or_add_property')
    gh = h.cfg
    link2 = next((x for x in h.walk() if is_assign(x) and norm(x.child('lhs').text()) == 'properties'), None)
    reuse = next((x for x in h.walk() if is_assign(x) and norm(x.child('lhs').text()) == 'property->value'), None)
    if link2 is None or reuse is None:
        raise AnalysisBroken('get_or_add_property: shape not recognised')
    path = gh.path_avoiding(gh.where_node(reuse), lambda b, i, nid: (b, i) == gh.where_node(link2), lambda b, i, nid: False)
    ctx.check(path is None, 'R-MUSTPASS', 'get_or_add_property/reuse-xor-insert', reuse.loc(), 'adding a value to an existing property never also links a new property')


def check_property_list_model(ctx, db):
    """remove_property and get_property interpreted (sa/minieval) on every property list of up to four entries over two names, for the
    removal of one name in both modes (first occurrence / all occurrences), against a Python list: the entries that remain, in order;
    the count returned; every removed node (and its name) released exactly once, no remaining node released; get_property finds the
    first entry of a name or nothing. Whatever loop and exit forms the functions use."""
    from .. import minieval as M
    import itertools as it
    rp, gp = db.fn('gdstk::remove_property'), db.fn('gdstk::get_property')
    ctx.touch(rp)
    ctx.touch(gp)
    bad = []
    runs = 0
    for n in range(0, 5):
        for names in it.product('ab', repeat=n):
            for allocc in (0, 1):
                runs += 1
                nodes = [M.Obj(name=nm, value=('val', k_), next=0, _k=k_) for k_, nm in enumerate(names)]
                for k_ in range(len(nodes) - 1):
                    nodes[k_]['next'] = nodes[k_ + 1]
                freed = []

                def hook(callee, args, node):
                    short = (callee or '').split('::')[-1]
                    if short == 'strcmp':
                        return (0 if str(args[0]) == str(args[1]) else (1 if str(args[0]) > str(args[1]) else -1),)
                    if short in ('free_allocation', 'free'):
                        freed.append(args[0].get('_k') if isinstance(args[0], M.Obj) else ('name', args[0]))
                        return (None,)
                    if short == 'property_values_clear':
                        return (None,)
                    return None
                mi = M.Mini(db, hook=hook, budget=20000)
                mi.obj_store = True
                env = {rp.params[0]['n']: nodes[0] if nodes else 0, rp.params[1]['n']: 'a', rp.params[2]['n']: allocc}
                ret = None
                try:
                    mi.run(rp.body, env)
                except M.Return as rr:
                    ret = rr.v
                except AnalysisBroken as ex:
                    bad.append('list %s, all=%d: %s' % (list(names), allocc, ex))
                    continue
                left = []
                cur = env[rp.params[0]['n']]
                guard = 0
                while isinstance(cur, M.Obj) and guard < 10:
                    left.append(cur['_k'])
                    cur = cur.get('next', 0)
                    guard += 1
                gone = [k_ for k_, nm in enumerate(names) if nm == 'a']
                if not allocc:
                    gone = gone[:1]
                want_left = [k_ for k_ in range(n) if k_ not in gone]
                freed_nodes = sorted(x for x in freed if not isinstance(x, tuple))
                if left != want_left or ret != len(gone) or freed_nodes != gone:
                    bad.append('list %s, remove "a" (%s): %s entries remain (expected %s), returns %s (expected %d), nodes released %s' %
                               (list(names), 'all occurrences' if allocc else 'first occurrence', [names[k_] + str(k_) for k_ in left], [names[k_] + str(k_) for k_ in want_left], ret, len(gone), freed_nodes))
            # look-up
            runs += 1
            nodes = [M.Obj(name=nm, value=('val', k_), next=0, _k=k_) for k_, nm in enumerate(names)]
            for k_ in range(len(nodes) - 1):
                nodes[k_]['next'] = nodes[k_ + 1]
            mi = M.Mini(db, hook=lambda callee, args, node: ((0 if str(args[0]) == str(args[1]) else 1),) if (callee or '').endswith('strcmp') else None, budget=20000)
            mi.obj_store = True
            ret = None
            try:
                mi.run(gp.body, {gp.params[0]['n']: nodes[0] if nodes else 0, gp.params[1]['n']: 'b'})
            except M.Return as rr:
                ret = rr.v
            want = next((('val', k_) for k_, nm in enumerate(names) if nm == 'b'), 0)
            if ret != want:
                bad.append('list %s: get_property("b") returns %s, expected %s' % (list(names), ret, want))
    ctx.explored['valuations'] += runs
    ctx.check(not bad, 'R-MODEL.list', 'remove_property/get_property', rp.loc(), 'interpreted on %d (list, mode) cases: the list behaves as an ordered multimap under removal of the first / of all occurrences, and look-up finds the first occurrence' % runs,
              'the property list does not behave as an ordered multimap: ' + '; '.join(bad[:3]))
    ctx.require('R-MODEL.list cases interpreted', runs, 80)


def run(ctx):
    db = ctx.db
    ctx.attempt(check_property_list_model, ctx, db)
    nullable = flow.nullable_functions(db)
    ctx.attempt(check_property_lists, ctx, db, nullable)
    ctx.memo('tables', TABLE_FILES, check_tables, db)
    ctx.attempt(check_payload, ctx, db)
    ctx.attempt(check_array, ctx, db)
    ctx.attempt(check_heap, ctx, db)
    ctx.attempt(check_single_removal, ctx, db)
    ctx.attempt(check_update_xor_insert, ctx, db)
    ctx.attempt(check_key_widths, ctx, db)
    # positive control for the contradiction rule
    cdb = load_controls()
    for name, expect in (('ctl_list_head_removal', True), ('ctl_list_head_removal_ok', False)):
        f = cdb.fn('controls::' + name)
        sub = ctx.sub(cdb)
        flow.check_nullable_uses(sub, f, flow.nullable_functions(cdb), seeds_next=True)
        fired = bool(sub.violations('R-NULL'))
        ctx.control('%s (R-NULL %s)' % (name, 'fires' if expect else 'silent'), fired == expect)


MANIFEST = dict(
   text='Decides structural necessary conditions of the container models on all paths: (1) check-then-use null contradictions in every property-list function (a pointer the function itself null-tests, re-assigned from a list tail and dereferenced untested); (2) the four open-addressing tables (Map<T>, Set<T>, TagMap, StyleMap; every member instantiated explicitly) are model-checked by interpreting their methods (sa/tablemodel.py): breadth-first over every state reachable from the zeroed table under insert/delete of a small key universe with chosen hashes (colliding clusters that wrap around the array end, the resize at the fifth insertion), two values per key on a smaller universe, plus a fill-and-drain history through several resizes; in every state count, absence of duplicates, values, the linear-probing reachability invariant, get/has/next/copy_from/clear agree with a reference dictionary, and no assertion fails, no slot outside the array is touched, no hash % 0, no non-terminating probe, no released string stays in a slot; statement forms (early returns, flags, helpers, pointer or index walks) do not enter; payload obligations (old slot emptied, every item field written); (3) Array<T> bookkeeping; (4) property-list copies append at the tail and deep-copy, remove_property leaves the function right after the first removal unless all occurrences were requested, and set_gds_property / get_or_add_property either update an existing entry or link a new one, never both (CFG reachability). (5) heap sort (introsort fallback): child/parent index formulas evaluated for small indices, every comparison of a child index with the inclusive bound `end` is `<=`, the build phase passes count-1, after the maximum is swapped to items[end] the sift range excludes that slot, and the elements saved by insertion_sort, sift_down and partition are copies, not references into the array being rearranged. Equivalence of the tables with an abstract map is decided for the explored universes only (5-6 keys, capacities 8-64), not for every history; that sort orders every input is decided for the enumerated arrays (all weak orderings up to 5-6 elements) only. As built: gdstk::sort with heap_sort, insertion_sort, intro_sort and their helpers is decided by interpretation (R-MODEL.sort): every array over {0,1,2} of up to 5 (6) elements and adversarial arrays of 17-40 elements, with < and >, must come out as the sorted permutation with no access outside the array - exhaustive over the weak orderings of those sizes, samples beyond; this replaces the index-discipline rules of the heap part. remove_property / get_property are interpreted on every list of up to four entries over two names (R-MODEL.list).',
   note='Trusted: clang 14 front end, gx, sa rules, the interpreter sa/minieval.py and the table harness sa/tablemodel.py (allocation, string and hash primitives are answered by the harness); hash() not analysed.',
   technique='explicit-state model checking of the hash tables by abstract interpretation of their source over small universes (no compiled code is run) + per-method index obligations with affine loop summaries (heap sort) + nullness dataflow (check-then-use contradiction) + CFG reachability (update xor insert) + interpretation of gdstk::sort on all small arrays and of the property-list functions on all short lists (sa/minieval)',
   design='§4 C20')
