"""Small regular-language toolkit: regex AST -> NFA -> DFA, language inclusion with counterexample.
AST: ('tok', a) | ('eps',) | ('seq', [..]) | ('alt', [..]) | ('star', x) | ('plus', x) | ('opt', x)"""


def seq(*xs):
    out = []
    for x in xs:
        if x is None or x == ('eps',):
            continue
        if x[0] == 'seq':
            out.extend(x[1])
        else:
            out.append(x)
    if not out:
        return ('eps',)
    return out[0] if len(out) == 1 else ('seq', out)


def alt(*xs):
    xs = [x for x in xs if x is not None]
    uniq = []
    for x in xs:
        if x not in uniq:
            uniq.append(x)
    return uniq[0] if len(uniq) == 1 else ('alt', uniq)


def tok(a):
    return ('tok', a)


def star(x):
    return ('eps',) if x == ('eps',) else ('star', x)


def plus(x):
    return ('eps',) if x == ('eps',) else ('plus', x)


def opt(x):
    return ('eps',) if x == ('eps',) else ('opt', x)


def show(r):
    k = r[0]
    if k == 'tok':
        return r[1]
    if k == 'eps':
        return 'ε'
    if k == 'seq':
        return ' '.join(show(x) for x in r[1])
    if k == 'alt':
        return '(' + ' | '.join(show(x) for x in r[1]) + ')'
    return '(' + show(r[1]) + ')' + {'star': '*', 'plus': '+', 'opt': '?'}[k]


class NFA:
    def __init__(self):
        self.n = 0
        self.eps = {}
        self.delta = {}

    def new(self):
        self.n += 1
        return self.n - 1

    def add(self, a, sym, b):
        if sym is None:
            self.eps.setdefault(a, set()).add(b)
        else:
            self.delta.setdefault((a, sym), set()).add(b)

    def build(self, r):
        k = r[0]
        s, t = self.new(), self.new()
        if k == 'eps':
            self.add(s, None, t)
        elif k == 'tok':
            self.add(s, r[1], t)
        elif k == 'seq':
            cur = s
            for x in r[1]:
                a, b = self.build(x)
                self.add(cur, None, a)
                cur = b
            self.add(cur, None, t)
        elif k == 'alt':
            for x in r[1]:
                a, b = self.build(x)
                self.add(s, None, a)
                self.add(b, None, t)
        elif k in ('star', 'plus', 'opt'):
            a, b = self.build(r[1])
            self.add(s, None, a)
            self.add(b, None, t)
            if k in ('star', 'plus'):
                self.add(b, None, a)
            if k in ('star', 'opt'):
                self.add(s, None, t)
        return s, t

    def closure(self, S):
        st = list(S)
        out = set(S)
        while st:
            x = st.pop()
            for y in self.eps.get(x, ()):
                if y not in out:
                    out.add(y)
                    st.append(y)
        return frozenset(out)


def to_dfa(r, alphabet):
    n = NFA()
    s, t = n.build(r)
    start = n.closure({s})
    states = {start: 0}
    trans = {}
    accept = set()
    work = [start]
    while work:
        S = work.pop()
        if t in S:
            accept.add(states[S])
        for a in alphabet:
            T = set()
            for x in S:
                T |= n.delta.get((x, a), set())
            if not T:
                continue
            T = n.closure(T)
            if T not in states:
                states[T] = len(states)
                work.append(T)
            trans[(states[S], a)] = states[T]
    return 0, trans, accept, len(states)


def alphabet_of(r, out=None):
    out = set() if out is None else out
    if r[0] == 'tok':
        out.add(r[1])
    elif r[0] in ('seq', 'alt'):
        for x in r[1]:
            alphabet_of(x, out)
    elif r[0] in ('star', 'plus', 'opt'):
        alphabet_of(r[1], out)
    return out


def included(a, b):
    """L(a) subset of L(b)?  Returns (True, None) or (False, counterexample token list)."""
    alpha = sorted(alphabet_of(a) | alphabet_of(b))
    sa, ta, fa, _ = to_dfa(a, alpha)
    sb, tb, fb, _ = to_dfa(b, alpha)
    DEAD = -1
    start = (sa, sb)
    seen = {start: None}
    work = [start]
    while work:
        x = work.pop(0)
        p, q = x
        if p in fa and (q == DEAD or q not in fb):
            path = []
            cur = x
            while seen[cur] is not None:
                prev, sym = seen[cur]
                path.append(sym)
                cur = prev
            return False, list(reversed(path))
        for sym in alpha:
            if (p, sym) not in ta:
                continue
            p2 = ta[(p, sym)]
            q2 = tb.get((q, sym), DEAD) if q != DEAD else DEAD
            y = (p2, q2)
            if y not in seen:
                seen[y] = (x, sym)
                work.append(y)
    return True, None
