"""Checker self-test (thorough tier): each seeded single-edit variant under /verif/selftest/<id>/
and /verif/seeded/*/ (for this property) is applied to a scratch copy of the current /repo sources
(outside /repo and /verif), re-extracted and re-checked with the same rules. Expected outcome per
patch is recorded in its meta (expect: caught | missed); behaviour-preserving changes under /verif/benign/ must leave the check silent (expect: silent). The scratch copy is removed immediately."""
import glob
import importlib
import json
import os
import shutil
import subprocess
import tempfile

from . import facts, core


def patches_for(pid):
    out = []
    for p in sorted(glob.glob(os.path.join(facts.VERIF, 'selftest', pid, '*.patch'))):
        meta = {}
        mp = p[:-6] + '.json'
        if os.path.exists(mp):
            meta = json.load(open(mp))
        out.append((os.path.basename(p)[:-6], p, meta.get('expect', 'caught'), meta.get('expect_rule'), meta.get('note', '')))
    for d in sorted(glob.glob(os.path.join(facts.VERIF, 'seeded', '*'))):
        mp = os.path.join(d, 'meta.json')
        if not os.path.exists(mp):
            continue
        meta = json.load(open(mp))
        checks = meta.get('checked_by', {})
        if pid in checks or meta.get('property') == pid:
            exp = checks.get(pid, {}).get('expect', 'missed')
            out.append(('seeded/' + os.path.basename(d), os.path.join(d, 'patch.diff'), exp, checks.get(pid, {}).get('rule'), meta.get('summary', '')))
    # behaviour-preserving changes: the check must stay silent (a report would be a false alarm)
    for d in sorted(glob.glob(os.path.join(facts.VERIF, 'benign', '*'))):
        mp = os.path.join(d, 'meta.json')
        if not os.path.exists(mp):
            continue
        meta = json.load(open(mp))
        if pid in meta.get('checks', []) or 'all' in meta.get('checks', []):
            out.append(('benign/' + os.path.basename(d), os.path.join(d, 'patch.diff'), 'silent', None, meta.get('summary', '')))
    return out


class _deadline:
    """per-variant time limit inside the self-tests: a rule that does not terminate on a changed tree is reported for that variant
    (analysis-broken) instead of stalling the whole check; the outer budget of ./check is re-armed afterwards"""

    def __init__(self, seconds):
        self.seconds = seconds

    def __enter__(self):
        import signal
        self.old_handler = signal.getsignal(signal.SIGALRM)
        self.remaining = signal.alarm(0)

        def _raise(signum, frame):
            raise facts.AnalysisBroken('time limit of %d s for one variant exceeded' % self.seconds)
        signal.signal(signal.SIGALRM, _raise)
        signal.alarm(self.seconds)
        self.t0 = __import__('time').time()
        return self

    def __exit__(self, *exc):
        import signal
        signal.alarm(0)
        signal.signal(signal.SIGALRM, self.old_handler)
        if self.remaining:
            left = int(self.remaining - (__import__('time').time() - self.t0))
            signal.alarm(max(1, left))
        return False


def baseline_keys(ctx):
    return {(o.rule, o.key) for o in ctx.obs if o.status == 'violation'}


def _variant(args):
    """one variant in its own scratch copy (also the body of a worker process): apply, extract, run the quick rules, compare"""
    pid, name, path, expect, note, repo, base = args[:7]
    synthetic = len(args) > 7 and args[7]
    base = set(map(tuple, base))
    mod = importlib.import_module('sa.props.' + pid)
    d = tempfile.mkdtemp(prefix='gdstk-selftest.')
    try:
        for sub in ('src', 'include', 'external'):
            shutil.copytree(os.path.join(repo, sub), os.path.join(d, sub), symlinks=True)
        p = subprocess.run(['patch', '-p1', '-s', '-f', '--no-backup-if-mismatch', '-i', path], cwd=d, stdout=subprocess.PIPE, stderr=subprocess.STDOUT, text=True)
        if p.returncode != 0:
            return {'patch': name, 'status': 'skipped', 'why': 'does not apply to the current tree', 'expect': expect}
        try:
            with _deadline(240):
                db2 = facts.load(d)
                c2 = core.Ctx(pid, 'quick', db2, scratch=True)
                mod.run(c2)
            new = [o for o in c2.obs if o.status == 'violation' and (o.rule, o.key) not in base]
            broken = [m for m in c2.mins if m[1] < m[2]] + [c for c in c2.controls if not c[1]] + list(c2.broken)
            fired = bool(new) or bool(broken)
            rep = [{'rule': o.rule, 'instance': o.key, 'loc': o.loc, 'what': o.what[:200]} for o in new[:4]]
            if broken and not new:
                rep = [{'analysis_broken': str(broken[:2])}]
        except facts.AnalysisBroken as e:
            if synthetic and 'extractor failed' in str(e):
                return None             # the rewrite does not compile in some configuration: not a variant
            fired = True
            rep = [{'analysis_broken': str(e)[:300]}]
        except Exception as e:          # noqa: BLE001  (a rule raising on a changed tree: reported, never a crash of the whole check)
            fired = True
            rep = [{'analysis_broken': 'internal: %s: %s' % (type(e).__name__, str(e)[:200])}]
        return {'patch': name, 'status': 'caught' if fired else 'missed', 'expect': expect, 'reports': rep, 'note': note[:200]}
    finally:
        shutil.rmtree(d, ignore_errors=True)


def jobs():
    """worker processes for the variants of one check: GDSTK_SA_JOBS, else half of the cores (at most 8)"""
    try:
        n = int(os.environ.get('GDSTK_SA_JOBS', '0') or 0)
    except ValueError:
        n = 0
    return n if n > 0 else max(1, min(8, (os.cpu_count() or 2) // 2))


def run(pid, ctx, repo=None):
    repo = repo or facts.REPO
    base = sorted(baseline_keys(ctx))
    work = [(pid, name, path, expect, note, repo, base) for name, path, expect, expect_rule, note in patches_for(pid)]
    n = jobs()
    if n <= 1 or len(work) < 2:
        return [_variant(w) for w in work]
    # the variants are independent (each has its own scratch copy; the caches are content addressed and written atomically)
    import multiprocessing
    with multiprocessing.get_context('fork').Pool(n) as pool:
        return pool.map(_variant, work, chunksize=1)


def gm_control(pid, ctx, n=24, repo=None):
    """Standing false-alarm control: n synthetic behaviour-preserving rewrites (build/gm: semantics preserving by construction)
    of the functions this check analysed, one per scratch copy; the check must stay silent on every one of them."""
    from . import gmctl
    repo = repo or facts.REPO
    results = []
    # The control is advisory (it measures the rules' tolerance on sampled rewrites, it does not judge the tree): nothing that goes
    # wrong inside it - the generator failing to build or run, a rule raising on a rewritten tree - may change the verdict of the check.
    try:
        gmctl.ensure()
        mod = importlib.import_module('sa.props.' + pid)
        base = baseline_keys(ctx)
        seed = int(os.environ.get('VERIF_SEED', '0') or 0) * 1000 + int(pid[1:])
        sites = gmctl.sample_for(sorted(ctx.functions), repo, n, seed)
    except Exception as e:          # noqa: BLE001
        ctx.extra['robustness_control_error'] = '%s: %s' % (type(e).__name__, str(e)[:300])
        return results
    work = tempfile.mkdtemp(prefix='gdstk-gm.')
    try:
        todo = []
        for i, site in enumerate(sites):
            try:
                pd = gmctl.make_patch(site, repo, work, i)
            except Exception:               # noqa: BLE001
                pd = None
            if pd is None:
                continue
            name = 'gm/%s:%s@%s:%s' % (site['kind'], site['func'].replace('gdstk::', ''), os.path.basename(site['file']), site['line'])
            todo.append((pid, name, os.path.join(pd, 'patch.diff'), 'silent', 'synthetic behaviour-preserving rewrite', repo, sorted(base), True))
        try:
            n_ = jobs()
            if n_ <= 1 or len(todo) < 2:
                out = [_variant(w) for w in todo]
            else:
                import multiprocessing
                with multiprocessing.get_context('fork').Pool(n_) as pool:
                    out = pool.map(_variant, todo, chunksize=1)
            results = [r for r in out if r is not None and r.get('status') != 'skipped']
        except Exception as e:              # noqa: BLE001  (advisory control: never changes the verdict)
            ctx.extra['robustness_control_error'] = '%s: %s' % (type(e).__name__, str(e)[:300])
    finally:
        shutil.rmtree(work, ignore_errors=True)
    return results


def summarise(ctx, results):
    fired = sum(1 for r in results if r['status'] == 'caught')
    total = sum(1 for r in results if r['status'] != 'skipped')
    ctx.extra['selftest'] = {'synthetic_rewrites_silent': sum(1 for r in results if r['patch'].startswith('gm/') and r['status'] == 'missed'), 'synthetic_rewrites': sum(1 for r in results if r['patch'].startswith('gm/')),
                             'fired': fired, 'total': total, 'skipped': sum(1 for r in results if r['status'] == 'skipped'), 'results': results}
    for r in results:
        print('  selftest %-44s %-8s (expected %s)%s' % (r['patch'], r['status'], r['expect'],
              (' -> ' + r['reports'][0].get('instance', r['reports'][0].get('analysis_broken', ''))[:90]) if r.get('reports') else ''))
        if r['status'] == 'missed' and r['expect'] == 'caught':
            ctx.control('selftest ' + r['patch'], False)
        if r['status'] == 'caught' and r['expect'] == 'silent':
            if r['patch'].startswith('gm/'):
                # the synthetic rewrites are sampled per run (VERIF_SEED): an alarm on one measures the rule's tolerance and is
                # reported in the evidence; it says nothing about the tree under analysis, so it does not change the verdict
                ctx.extra.setdefault('robustness_alarms', []).append({'rewrite': r['patch'], 'reports': r.get('reports', [])})
                continue
            ctx.control('false alarm on behaviour-preserving change ' + r['patch'], False)
