"""Sign-domain abstract interpretation of straight-line scalar/Vec2 code (R-SIGN).
Inputs are enumerated over concrete signs/booleans, so evaluation is exact in the sign domain
except where + and - are added (result 'T')."""
from .flow import lvalue_key, is_assign, _strip_casts

NEG = {'+': '-', '-': '+', '0': '0', 'T': 'T'}


def mul(a, b):
    if a == '0' or b == '0':
        return '0'
    if 'T' in (a, b):
        return 'T'
    return '+' if a == b else '-'


def add(a, b):
    if a == '0':
        return b
    if b == '0':
        return a
    if a == b and a != 'T':
        return a
    return 'T'


def sign_of_number(v):
    return '+' if v > 0 else ('-' if v < 0 else '0')


class Interp:
    """env: access-path key (lvalue_key) or plain name -> sign | bool | (sign, sign) for Vec2."""

    def __init__(self, env):
        self.env = dict(env)

    def get(self, n):
        k = lvalue_key(n)
        if k in self.env:
            return self.env[k]
        if n.k == 'DeclRefExpr' and n.n in self.env:
            return self.env[n.n]
        if n.k == 'MemberExpr' and ('this->' + n.n) in self.env and k == 'this->' + n.n:
            return self.env[k]
        return None

    def comp(self, n):
        """component index for Vec2 member names"""
        return {'x': 0, 'u': 0, 'y': 1, 'v': 1}.get(n)

    def ev(self, e):
        e = _strip_casts(e)
        if e is None:
            return 'T'
        k = e.k
        if k == 'IntegerLiteral' or (e.cv is not None and k not in ('DeclRefExpr', 'MemberExpr')):
            return sign_of_number(e.cv)
        if k == 'FloatingLiteral' or (e.fv is not None and k not in ('DeclRefExpr', 'MemberExpr')):
            return sign_of_number(e.fv)
        if k == 'CXXBoolLiteralExpr':
            return bool(e.v)
        if k in ('DeclRefExpr',):
            v = self.get(e)
            return 'T' if v is None else v
        if k == 'MemberExpr':
            v = self.get(e)
            if v is not None:
                return v
            ci = self.comp(e.n)
            if ci is not None:
                b = e.child('base')
                while b is not None and b.k == 'MemberExpr' and not b.n:
                    b = b.child('base')
                bv = self.ev(b) if b is not None else None
                if isinstance(bv, tuple):
                    return bv[ci]
            return 'T'
        if k == 'UnaryOperator':
            s = self.ev(e.child('sub'))
            if e.op == '-':
                return NEG.get(s, 'T') if not isinstance(s, tuple) else tuple(NEG[x] for x in s)
            if e.op == '+':
                return s
            if e.op == '!':
                return (not s) if isinstance(s, bool) else 'T'
            if e.op == '*':
                v = self.get(e)
                return 'T' if v is None else v
            return 'T'
        if k == 'BinaryOperator':
            a, b = self.ev(e.child('lhs')), self.ev(e.child('rhs'))
            if e.op == '*':
                return self._mul(a, b)
            if e.op == '/':
                return self._mul(a, b)
            if e.op == '+':
                return add(a, b) if not isinstance(a, tuple) else 'T'
            if e.op == '-':
                return add(a, NEG.get(b, 'T')) if not isinstance(a, tuple) and not isinstance(b, tuple) else 'T'
            return 'T'
        if k == 'CXXOperatorCallExpr' and e.op in ('*',):
            a, b = (self.ev(x) for x in e.args)
            return self._mul(a, b)
        if k == 'ConditionalOperator':
            c = self.ev(e.child('cond'))
            if c is True:
                return self.ev(e.child('then'))
            if c is False:
                return self.ev(e.child('else'))
            x, y = self.ev(e.child('then')), self.ev(e.child('else'))
            return x if x == y else 'T'
        if k == 'CallExpr' and e.callee in ('fabs', 'std::fabs', 'abs', 'std::abs'):
            s = self.ev(e.args[0])
            return '0' if s == '0' else ('+' if s in ('+', '-') else 'T')
        if k in ('InitListExpr', 'CXXFunctionalCastExpr', 'CXXConstructExpr', 'CXXTemporaryObjectExpr'):
            kids = [c for c in e.c if c is not None]
            if len(kids) == 1:
                return self.ev(kids[0])
            if len(kids) == 2:
                return (self.ev(kids[0]), self.ev(kids[1]))
        return 'T'

    def _mul(self, a, b):
        if isinstance(a, tuple) and isinstance(b, tuple):
            return (mul(a[0], b[0]), mul(a[1], b[1]))
        if isinstance(a, tuple):
            return (mul(a[0], b), mul(a[1], b))
        if isinstance(b, tuple):
            return (mul(a, b[0]), mul(a, b[1]))
        if isinstance(a, bool) or isinstance(b, bool):
            return 'T'
        return mul(a, b)

    def store(self, lhs, val, op='='):
        lhs = _strip_casts(lhs)
        if lhs.k == 'MemberExpr' and self.comp(lhs.n) is not None:
            b = lhs.child('base')
            while b is not None and b.k == 'MemberExpr' and not b.n:
                b = b.child('base')
            bk = lvalue_key(b)
            cur = self.env.get(bk)
            if isinstance(cur, tuple):
                i = self.comp(lhs.n)
                old = cur[i]
                new = val if op == '=' else (mul(old, val) if op in ('*=', '/=') else 'T')
                t = list(cur)
                t[i] = new
                self.env[bk] = tuple(t)
                return
        k = lvalue_key(lhs)
        if k is None:
            return
        if op == '=':
            self.env[k] = val
        elif op in ('*=', '/='):
            old = self.env.get(k, 'T')
            self.env[k] = self._mul(old, val)
        else:
            self.env[k] = 'T'

    def run(self, stmts, stop_at=None):
        """Execute statements (compound/if/decl/assign); loops are not entered. Returns False when
        stop_at (a node) was reached."""
        for s in stmts:
            if s is None:
                continue
            if stop_at is not None and any(x is stop_at for x in s.walk()) and s.k not in ('CompoundStmt', 'IfStmt'):
                return False
            if s.k == 'CompoundStmt':
                if self.run(s.c, stop_at) is False:
                    return False
            elif s.k == 'DeclStmt':
                for v in s.c:
                    if v is not None and v.k == 'VarDecl':
                        self.env['v%d:%s' % (v.d, v.n)] = self.ev(v.child('init')) if v.child('init') is not None else 'T'
            elif s.k == 'IfStmt':
                c = self.ev(s.child('cond'))
                if c is True:
                    if self.run([s.child('then')], stop_at) is False:
                        return False
                elif c is False:
                    if s.child('else') is not None and self.run([s.child('else')], stop_at) is False:
                        return False
                else:
                    # unknown condition: run both on copies and join
                    a, b = Interp(self.env), Interp(self.env)
                    a.run([s.child('then')])
                    if s.child('else') is not None:
                        b.run([s.child('else')])
                    for k in set(a.env) | set(b.env):
                        self.env[k] = a.env.get(k) if a.env.get(k) == b.env.get(k) else 'T'
            elif is_assign(s):
                self.store(s.child('lhs'), self.ev(s.child('rhs')), s.op)
            elif s.k in ('ForStmt', 'WhileStmt', 'DoStmt'):
                continue
        return True
