"""R-DERIV — a small computer algebra over the typed mini-AST: straight-line floating-point code
(const locals, + - *, division by constants, sin/cos, Vec2 construction and arithmetic, calls to
small pure helpers which are inlined) is turned into multivariate polynomials over symbolic atoms,
differentiated with respect to one parameter and compared for identity. Used to decide "this
function is the derivative of that one" without evaluating anything numerically."""
from fractions import Fraction
from .flow import _strip_casts, is_assign


class Unsupported(Exception):
    pass


# polynomial: dict {tuple(sorted atom names): Fraction}; atom names are strings; FUNCS maps 'sin#k'/'cos#k' -> argument polynomial
def P(c=0):
    c = Fraction(c)
    return {(): c} if c else {}


def atom(name):
    return {(name,): Fraction(1)}


def add(a, b, s=1):
    out = dict(a)
    for m, c in b.items():
        v = out.get(m, 0) + s * c
        if v:
            out[m] = v
        else:
            out.pop(m, None)
    return out


def mul(a, b):
    out = {}
    for m1, c1 in a.items():
        for m2, c2 in b.items():
            m = tuple(sorted(m1 + m2))
            v = out.get(m, 0) + c1 * c2
            if v:
                out[m] = v
            else:
                out.pop(m, None)
    return out


def is_const(a):
    return all(m == () for m in a)


def show(a):
    if not a:
        return '0'
    parts = []
    for m, c in sorted(a.items()):
        parts.append(('%s*' % c if c != 1 or not m else '') + '*'.join(m) if m else str(c))
    return ' + '.join(parts)


class Algebra:
    def __init__(self, db, var):
        self.db = db
        self.var = var
        self.funcs = {}     # atom name -> ('sin'|'cos', arg polynomial)
        self.canon = {}

    def fatom(self, kind, arg):
        if not arg and kind in ('sin', 'cos'):
            return P(0) if kind == 'sin' else P(1)
        key = (kind, tuple(sorted(arg.items())))
        if key not in self.canon:
            name = '%s(%s)' % (kind, show(arg))
            self.canon[key] = name
            self.funcs[name] = (kind, arg)
        return atom(self.canon[key])

    # ---- values: scalar polynomial or ('vec', px, py)
    def vec(self, x, y):
        return ('vec', x, y)

    def isvec(self, v):
        return isinstance(v, tuple) and v and v[0] == 'vec'

    def vadd(self, a, b, s=1):
        if self.isvec(a) and self.isvec(b):
            return self.vec(add(a[1], b[1], s), add(a[2], b[2], s))
        if not self.isvec(a) and not self.isvec(b):
            return add(a, b, s)
        raise Unsupported('mixed scalar/vector addition')

    def vmul(self, a, b):
        if self.isvec(a) and self.isvec(b):
            raise Unsupported('vector * vector')
        if self.isvec(a):
            return self.vec(mul(a[1], b), mul(a[2], b))
        if self.isvec(b):
            return self.vec(mul(a, b[1]), mul(a, b[2]))
        return mul(a, b)

    def value(self, e, env):
        e = _strip_casts(e)
        if e is None:
            raise Unsupported('empty expression')
        k = e.k
        if e.cv is not None and k not in ('DeclRefExpr',):
            return P(e.cv)
        if e.fv is not None and k not in ('DeclRefExpr',):
            return P(Fraction(e.fv))
        if k in ('ParenExpr', 'MaterializeTemporaryExpr', 'CXXBindTemporaryExpr', 'ExprWithCleanups', 'CXXFunctionalCastExpr', 'CompoundLiteralExpr', 'ImplicitCastExpr', 'CStyleCastExpr') or (k == 'CXXConstructExpr' and len([c for c in e.c if c is not None]) == 1):
            return self.value([c for c in e.c if c is not None][0], env)
        if k == 'InitListExpr':
            cs = [c for c in e.c if c is not None]
            if len(cs) == 1:
                return self.value(cs[0], env)
            if len(cs) == 2:
                a, b = self.value(cs[0], env), self.value(cs[1], env)
                if self.isvec(a) or self.isvec(b):
                    raise Unsupported('nested vector initialiser')
                return self.vec(a, b)
            raise Unsupported('initialiser list of %d' % len(cs))
        if k == 'DeclRefExpr':
            if e.n in env:
                return env[e.n]
            if e.n == self.var:
                return atom(self.var)
            if 'Vec2' in (e.t or ''):
                return self.vec(atom(e.n + '.x'), atom(e.n + '.y'))
            return atom(e.n)
        if k == 'MemberExpr':
            b = e.child('base')
            bb = _strip_casts(b) if b is not None else None
            while bb is not None and bb.k == 'MemberExpr' and not bb.n:   # anonymous struct/union members are transparent
                b2 = bb.child('base')
                bb = _strip_casts(b2) if b2 is not None else None
            if not e.n:
                raise Unsupported('anonymous member used as a value')
            if bb is None or bb.k == 'CXXThisExpr':
                if e.n in env:
                    return env[e.n]
                if 'Vec2' in (e.t or ''):
                    return self.vec(atom(e.n + '.x'), atom(e.n + '.y'))
                return atom(e.n)
            v = self.value(bb, env)
            if self.isvec(v) and e.n in ('x', 'u', 're'):
                return v[1]
            if self.isvec(v) and e.n in ('y', 'v', 'im'):
                return v[2]
            raise Unsupported('member %s of non-vector' % e.n)
        if k == 'ArraySubscriptExpr':
            base = _strip_casts(e.child('base') or e.c[0])
            idx = _strip_casts(e.child('idx') or e.c[1])
            if base.k == 'MemberExpr' and base.n == 'e' and idx.cv in (0, 1):
                # Vec2's array view of its two components
                bb = base.child('base')
                bb = _strip_casts(bb) if bb is not None else None
                while bb is not None and bb.k == 'MemberExpr' and not bb.n:
                    b2 = bb.child('base')
                    bb = _strip_casts(b2) if b2 is not None else None
                if bb is None or bb.k == 'CXXThisExpr':
                    nm = 'x' if idx.cv == 0 else 'y'
                    if nm in env:
                        return env[nm]
                    raise Unsupported('component of an unbound object')
                v = self.value(bb, env)
                if self.isvec(v):
                    return v[1 + idx.cv]
                raise Unsupported('e[] of a non-vector')
            if base.k in ('DeclRefExpr', 'MemberExpr') and idx.cv is not None:
                nm = '%s[%d]' % (base.n, idx.cv)
                return env[nm] if nm in env else atom(nm)
            raise Unsupported('array access')
        if k == 'UnaryOperator' and e.op in ('-', '+'):
            v = self.value(e.child('sub'), env)
            return v if e.op == '+' else self.vmul(v, P(-1))
        if k == 'CXXOperatorCallExpr' and e.callee and e.op in ('+', '-', '*', '/'):
            g = [x for x in (self.db.fn(e.callee, required=False, all=True) or []) if x.body is not None] if self.db is not None else []
            sig = [a for a in e.args]
            g = [x for x in g if len(x.params) == len(sig)]
            if len(g) >= 1:
                vals = [self.value(a, env) for a in sig]
                # overloads differ by operand kinds (Vec2 x double, double x Vec2, Vec2 x Vec2): pick by parameter types
                def fits(fn):
                    return all(('Vec2' in (p_.get('t') or '')) == self.isvec(v) for p_, v in zip(fn.params, vals))
                gg = [x for x in g if fits(x)]
                if len(gg) == 1:
                    return self.inline(gg[0], vals)
        if k == 'CXXThisExpr' or (k == 'UnaryOperator' and e.op == '*' and _strip_casts(e.child('sub')).k == 'CXXThisExpr'):
            if 'x' in env and 'y' in env:
                return self.vec(env['x'], env['y'])
            raise Unsupported('`this` outside an inlined Vec2 method')
        if k == 'CXXMemberCallExpr' and e.callee:
            ob = e.child('obj')
            ov = self.value(ob, env) if ob is not None else (self.vec(env['x'], env['y']) if 'x' in env and 'y' in env else None)
            if ov is None:
                raise Unsupported('member call without object')
            g = [x for x in (self.db.fn(e.callee, required=False, all=True) or []) if x.body is not None] if self.db is not None else []
            if self.isvec(ov) and len(g) == 1 and not any(is_assign(x) or x.k == 'CompoundAssignOperator' for x in g[0].walk()):
                en = {'x': ov[1], 'y': ov[2], 'u': ov[1], 'v': ov[2], 're': ov[1], 'im': ov[2]}
                for p_, a in zip(g[0].params, e.args):
                    en[p_['n']] = self.value(a, env)
                return self.block([s for s in g[0].body.c if s is not None], en, want='return')
        if k == 'CXXOperatorCallExpr' and e.op == '-' and len(e.args) == 1:
            return self.vmul(self.value(e.args[0], env), P(-1))
        if k in ('BinaryOperator', 'CXXOperatorCallExpr') and e.op in ('+', '-', '*', '/'):
            l_, r_ = (e.args[0], e.args[1]) if k == 'CXXOperatorCallExpr' else (e.child('lhs'), e.child('rhs'))
            a, b = self.value(l_, env), self.value(r_, env)
            if e.op == '+':
                return self.vadd(a, b)
            if e.op == '-':
                return self.vadd(a, b, -1)
            if e.op == '*':
                return self.vmul(a, b)
            if self.isvec(b) or not b:
                raise Unsupported('division by a vector or by zero')
            if is_const(b):
                return self.vmul(a, P(1 / b[()]))
            return self.vmul(a, self.fatom('inv', b))   # reciprocal of a symbolic quantity: an opaque atom keyed by the canonical divisor
        if k == 'ConditionalOperator':
            c = self.value(e.child('cond'), env)
            if self.isvec(c) or not is_const(c):
                raise Unsupported('conditional on a symbolic value')
            return self.value(e.child('then') if c else e.child('else'), env)
        if k == 'CXXBoolLiteralExpr':
            return P(1 if e.v else 0)
        if k == 'CallExpr':
            name = (e.callee or '').split('::')[-1]
            if name in ('sin', 'cos') and len(e.args) == 1:
                a = self.value(e.args[0], env)
                if self.isvec(a):
                    raise Unsupported('sin of vector')
                return self.fatom(name, a)
            g = self.db.fn(e.callee, required=False, all=True) if e.callee else None
            g = [x for x in (g or []) if x.body is not None]
            if len(g) == 1:
                return self.inline(g[0], [self.value(a, env) for a in e.args])
            raise Unsupported('call to %s' % e.callee)
        raise Unsupported('%s `%s`' % (k, e.text()[:50]))

    def inline(self, fn, args):
        env = {}
        for p_, a in zip(fn.params, args):
            env[p_['n']] = a
        return self.block([s for s in fn.body.c if s is not None], env, want='return')

    def block(self, stmts, env, want):
        """run straight-line statements; want='return' -> value of the return; otherwise name of the variable to read at the end"""
        for s in stmts:
            if s.k == 'DeclStmt':
                for v in s.c:
                    if v is not None and v.k == 'VarDecl':
                        if v.child('init') is None:
                            continue
                        env[v.n] = self.value(v.child('init'), env)
            elif s.k == 'ReturnStmt':
                if want != 'return':
                    raise Unsupported('unexpected return')
                return self.value(s.child('value'), env)
            elif is_assign(s) and s.op == '=':
                l = _strip_casts(s.args[0] if s.k == 'CXXOperatorCallExpr' else s.child('lhs'))
                if l.k not in ('DeclRefExpr', 'MemberExpr'):
                    raise Unsupported('assignment target')
                env[l.n] = self.value(s.args[1] if s.k == 'CXXOperatorCallExpr' else s.child('rhs'), env)
            elif s.k == 'CompoundStmt':
                r = self.block([c for c in s.c if c is not None], env, want)
                if want == 'return' and r is not None:
                    return r
            elif s.k in ('BreakStmt', 'NullStmt'):
                continue
            else:
                raise Unsupported('statement %s' % s.k)
        if want == 'return':
            return None
        return env.get(want)

    # ---- differentiation
    def d(self, v):
        if self.isvec(v):
            return self.vec(self.d(v[1]), self.d(v[2]))
        out = {}
        for m, c in v.items():
            for i, a in enumerate(m):
                rest = m[:i] + m[i + 1:]
                da = self.datom(a)
                if da:
                    out = add(out, mul({tuple(rest): c}, da))
        return out

    def datom(self, a):
        if a == self.var:
            return P(1)
        if a in self.funcs:
            kind, arg = self.funcs[a]
            inner = self.d(arg)
            if not inner:
                return {}
            if kind == 'sin':
                return mul(self.fatom('cos', arg), inner)
            if kind == 'cos':
                return mul(mul(self.fatom('sin', arg), P(-1)), inner)
            raise Unsupported('derivative of %s' % kind)
        return {}

    # ---- trigonometric expansion: sin/cos of a sum of +-1 * angle atoms -> products of sin/cos of single angles
    def expand(self, v):
        if self.isvec(v):
            return self.vec(self.expand(v[1]), self.expand(v[2]))
        out = {}
        for m, c in v.items():
            term = {(): c}
            for a in m:
                term = mul(term, self._expand_atom(a))
            out = add(out, term)
        return out

    def _expand_atom(self, a):
        if a not in self.funcs:
            return atom(a)
        kind, arg = self.funcs[a]
        terms = sorted(arg.items())
        if any(len(m) != 1 or c not in (1, -1) for m, c in terms):
            return atom(a)
        if len(terms) == 1:
            (m, c), = terms
            base = self.fatom(kind, atom(m[0]))
            if c == 1:
                return base
            return base if kind == 'cos' else mul(base, P(-1))
        (m0, c0) = terms[0]
        rest = dict(terms[1:])
        first = {m0: c0}
        sa, ca = self._expand_atom(self._name('sin', first)), self._expand_atom(self._name('cos', first))
        sb, cb = self._expand_atom(self._name('sin', rest)), self._expand_atom(self._name('cos', rest))
        if kind == 'sin':
            return add(mul(sa, cb), mul(ca, sb))
        return add(mul(ca, cb), mul(sa, sb), -1)

    def _name(self, kind, arg):
        v = self.fatom(kind, arg)
        return next(iter(v))[0] if v and next(iter(v)) != () else None

    def equal(self, a, b):
        if self.isvec(a) != self.isvec(b):
            return False
        if self.isvec(a):
            return add(a[1], b[1], -1) == {} and add(a[2], b[2], -1) == {}
        return add(a, b, -1) == {}

    def render(self, v):
        return '(%s, %s)' % (show(v[1]), show(v[2])) if self.isvec(v) else show(v)
