"""Model checking of the four open-addressing tables (Map<T>, Set<T>, TagMap, StyleMap) by interpretation of their source.

The methods are interpreted (sa/minieval) on concrete small tables: `this` is a struct object, the slot array a list of slot
objects, allocate_clear / free_allocation / copy_string / strcmp / hash are answered by the harness (the hash of every key of
the universe is chosen, so that clusters collide, wrap around the end of the array and survive a resize). Starting from the
zeroed table the state graph under insert(k) / delete(k) for every key of the universe is explored breadth first (states are
deduplicated by the content of the slot array), and in every state reached, after every operation:

  * count equals the number of entries of the reference dictionary, the array has `capacity` slots and is never full;
  * the occupied slots hold exactly the dictionary (no key twice, values right, no released string left in a slot);
  * every entry can be found again: no empty slot lies between the home slot of a key and the slot it occupies (the
    invariant of linear probing that a deletion must repair);
  * lookups (get / has) and the iteration (next) of the interpreted code agree with the dictionary, deletions report
    whether the key was present, no assertion of the code fails, no slot outside the array is touched.

Nothing about the way the methods are written enters: early returns or result variables, `while (true)` with breaks or a
flag, pointer or index walks, helpers taken by value - only the states they produce and the answers they give."""
from collections import deque
from .facts import AnalysisBroken
from . import minieval as M


class CStr(str):
    """a C string: non-NULL whatever its content"""
    def __bool__(self):
        return True
    __hash__ = str.__hash__


class Failed(Exception):
    pass


SPECS = {
    'Map': dict(prefix='gdstk::Map<void *>::', item='gdstk::MapItem<void *>', fields=('key', 'value'), kind='str',
                insert='set', delete='del', lookup='get', has='has_key', occupied=lambda s: s.get('key', 0) != 0, key_of=lambda s: s['key'], val_of=lambda s: s['value'], absent=lambda k: 0),
    'Set': dict(prefix='gdstk::Set<unsigned long>::', item='gdstk::SetItem<unsigned long>', fields=('value', 'valid'), kind='int',
                insert='add', delete='del', lookup=None, has='has_value', occupied=lambda s: bool(s.get('valid', 0)), key_of=lambda s: s['value'], val_of=lambda s: True, absent=lambda k: False),
    'TagMap': dict(prefix='gdstk::TagMap::', item='gdstk::TagMapItem', fields=('key', 'value'), kind='int',
                   insert='set', delete='del', lookup='get', has='has_key', occupied=lambda s: s.get('key', 0) != s.get('value', 0), key_of=lambda s: s['key'], val_of=lambda s: s['value'], absent=lambda k: k),
    'StyleMap': dict(prefix='gdstk::StyleMap::', item='gdstk::Style', fields=('tag', 'value'), kind='int-str',
                     insert='set', delete='del', lookup='get', has=None, occupied=lambda s: s.get('value', 0) != 0, key_of=lambda s: s['tag'], val_of=lambda s: s['value'], absent=lambda k: 0),
}


class Harness:
    def __init__(self, db, name):
        self.db, self.name, self.spec = db, name, SPECS[name]
        pre = self.spec['prefix']
        cands = [f for f in db.functions if f.qn.startswith(pre) and f.body is not None]
        if not cands and '<' in pre:
            # any instantiation of the template will do
            base = pre.split('<')[0]
            insts = sorted({f.qn.rsplit('::', 1)[0] for f in db.functions if f.qn.startswith(base + '<') and f.body is not None and f.qn.rsplit('::', 1)[1] == self.spec['insert']})
            if insts:
                pre = insts[0] + '::'
                cands = [f for f in db.functions if f.qn.startswith(pre) and f.body is not None]
        self.fns = {}
        for f in cands:
            self.fns.setdefault(f.name, f)
        for need in (self.spec['insert'], self.spec['delete'], 'get_slot', 'next', 'resize'):
            if need not in self.fns:
                raise AnalysisBroken('%s: method %s not found (looked for %s*)' % (name, need, pre))
        rec = db.records.get(self.spec['item']) or next((r for k, r in db.records.items() if k.startswith(self.spec['item'].split('<')[0] + ('<' if '<' in self.spec['item'] else '')) and r.get('size')), None)
        if rec is None or not rec.get('size'):
            raise AnalysisBroken('%s: slot record %s not found' % (name, self.spec['item']))
        self.item_size = rec['size']
        self.hashes = {}
        self.freed = set()
        self.steps = 0

    # ---- the environment of the interpreted code
    def hook(self, callee, args, node):
        c = callee or ''
        short = c.split('::')[-1].split('<')[0]
        if short == 'allocate_clear' or short == 'allocate':
            n = args[0] // self.item_size
            if n * self.item_size != args[0]:
                raise AnalysisBroken('%s: allocation of %d bytes is not a whole number of slots' % (self.name, args[0]))
            arr = [M.Obj() for _ in range(n)]
            self.mi.writable.add(id(arr))
            return (M.Ptr(arr, 0),)
        if short == 'free_allocation' or short == 'free':
            if isinstance(args[0], CStr):
                if id(args[0]) in self.freed:
                    raise Failed('a string is released twice')
                self.freed.add(id(args[0]))
                self.keep.append(args[0])
            return (None,)
        if short == 'copy_string':
            return (CStr(str(args[0])),)
        if short == 'strcmp':
            a, b = str(args[0]), str(args[1])
            return (0 if a == b else (-1 if a < b else 1),)
        if short == 'hash':
            k = str(args[0]) if isinstance(args[0], str) else args[0]
            if k not in self.hashes:
                raise AnalysisBroken('%s: hash of a key outside the universe (%r)' % (self.name, k))
            return (self.hashes[k],)
        if short == '__assert_fail':
            raise Failed('assertion `%s` fails' % (args[0] if args and isinstance(args[0], str) else node.text()[:60]))
        if short in ('fputs', 'fprintf', 'printf', 'fflush'):
            return (0,)
        return None

    def call(self, table, method, *args):
        f = self.fns[method]
        self.mi = M.Mini(self.db, hook=self.hook, budget=200000, c_ints=False, globals={'error_logger': 0})
        self.mi.obj_store = True
        for arr in self.arrays(table):
            self.mi.writable.add(id(arr))
        env = {p['n']: a for p, a in zip(f.params, args)}
        env['this'] = table
        try:
            self.mi.run(f.body, env)
        except M.Return as r:
            return r.v
        except M.OutOfBounds as ex:
            raise Failed('%s touches a slot outside the array (%s)' % (method, ex))
        except AnalysisBroken as ex:
            m_ = str(ex)
            if 'outside' in m_:
                raise Failed('%s touches a slot outside the array (%s)' % (method, m_.replace('mini-interpreter: ', '')))
            if 'division by zero' in m_:
                raise Failed('%s computes hash %% capacity with capacity 0' % method)
            if 'step budget exhausted' in m_:
                raise Failed('%s does not terminate (a probe in a full table, or a cursor that never reaches its end)' % method)
            raise
        return None

    def arrays(self, table):
        it = table.get('items', 0)
        return [it.arr] if isinstance(it, M.Ptr) else []

    # ---- states
    def snapshot(self, table):
        it = table.get('items', 0)
        slots = tuple((self.spec['key_of'](s), self.spec['val_of'](s)) if self.spec['occupied'](s) else None for s in it.arr) if isinstance(it, M.Ptr) else ()
        return (table.get('capacity', 0), table.get('count', 0), slots)

    def clone(self, table):
        it = table.get('items', 0)
        t2 = M.Obj(table)
        if isinstance(it, M.Ptr):
            t2['items'] = M.Ptr([M.Obj(s) for s in it.arr], it.i)
        return t2

    def check_state(self, table, model, what):
        spec = self.spec
        cap, cnt, it = table.get('capacity', 0), table.get('count', 0), table.get('items', 0)
        if cnt != len(model):
            raise Failed('%s: count is %s with %d entries' % (what, cnt, len(model)))
        if not model and not isinstance(it, M.Ptr):
            return
        if not isinstance(it, M.Ptr) or it.i != 0 or len(it.arr) != cap:
            raise Failed('%s: the slot array has %s slots, capacity says %s' % (what, len(it.arr) if isinstance(it, M.Ptr) else None, cap))
        occ = [(i, s) for i, s in enumerate(it.arr) if spec['occupied'](s)]
        if len(occ) >= cap and cap:
            raise Failed('%s: the table is full (a probe for an absent key never ends)' % what)
        seen = {}
        for i, s in occ:
            k = spec['key_of'](s)
            kk = str(k) if isinstance(k, str) else k
            if kk in seen:
                raise Failed('%s: key %r is stored twice (slots %d and %d)' % (what, kk, seen[kk], i))
            seen[kk] = i
            if kk not in model:
                raise Failed('%s: slot %d holds key %r, which is not in the table' % (what, i, kk))
            v = spec['val_of'](s)
            if (str(v) if isinstance(v, str) else v) != model[kk]:
                raise Failed('%s: key %r maps to %r, expected %r' % (what, kk, v, model[kk]))
            for x in (k, v):
                if isinstance(x, CStr) and id(x) in self.freed:
                    raise Failed('%s: slot %d keeps a string that was released' % (what, i))
            # reachable by linear probing from its home slot
            h = self.hashes[kk] % cap
            j = h
            while j != i:
                if not spec['occupied'](it.arr[j]):
                    raise Failed('%s: key %r in slot %d cannot be found any more: slot %d between its home slot %d and it is empty' % (what, kk, i, j, h))
                j = (j + 1) % cap
        missing = set(model) - set(seen)
        if missing:
            raise Failed('%s: %r is lost' % (what, sorted(missing)[0]))

    def queries(self, table, model, universe, what):
        spec = self.spec
        for k in universe:
            karg = CStr(k) if spec['kind'] == 'str' else k
            if spec['lookup']:
                t = self.clone(table)
                got = self.call(t, spec['lookup'], karg)
                want = model.get(k, spec['absent'](k))
                if (str(got) if isinstance(got, str) else got) != want:
                    raise Failed('%s: %s(%r) returns %r, expected %r' % (what, spec['lookup'], k, got, want))
            if spec['has']:
                t = self.clone(table)
                got = self.call(t, spec['has'], karg)
                if bool(got) != (k in model):
                    raise Failed('%s: %s(%r) returns %r' % (what, spec['has'], k, got))
        if 'copy_from' in self.fns:
            t2 = M.Obj(capacity=0, count=0, items=0)
            self.call(t2, 'copy_from', self.clone(table))
            self.check_state(t2, model, what + ' -> copy_from')
        if 'clear' in self.fns:
            t2 = self.clone(table)
            self.call(t2, 'clear')
            if t2.get('capacity', 0) or t2.get('count', 0) or t2.get('items', 0):
                raise Failed('%s -> clear: the table is left with capacity %s, count %s' % (what, t2.get('capacity'), t2.get('count')))
        # iteration
        t = self.clone(table)
        seen = []
        cur = 0
        for _ in range(1000):
            cur = self.call(t, 'next', cur)
            if not cur:
                break
            s = self.mi.load(cur)
            k = spec['key_of'](s)
            seen.append(str(k) if isinstance(k, str) else k)
        if sorted(map(str, seen)) != sorted(map(str, model)):
            raise Failed('%s: iteration with next() yields %s, the table holds %s' % (what, sorted(map(str, seen)), sorted(map(str, model))))

    def explore(self, universe, hashes, values, max_states=4000, query_every=True):
        """breadth-first over the states reachable from the empty table; returns (states, operations) or raises Failed"""
        self.hashes = dict(hashes)
        self.keep = []
        spec = self.spec
        empty = M.Obj(capacity=0, count=0, items=0)
        seen = {self.snapshot(empty): None}
        work = deque([(empty, {}, [])])
        ops = 0
        while work:
            table, model, hist = work.popleft()
            for k in universe:
                for op in ('insert', 'delete'):
                    for val in (values if op == 'insert' and spec['lookup'] else [None]):
                        t = self.clone(table)
                        m = dict(model)
                        ops += 1
                        karg = CStr(k) if spec['kind'] == 'str' else k
                        what = ' -> '.join(hist[-6:] + ['%s(%r%s)' % (spec[op], k, '' if val is None else ', %r' % (val,))])
                        self.freed = set()
                        try:
                            if op == 'insert':
                                if spec['lookup']:
                                    self.call(t, spec['insert'], karg, CStr(val) if spec['kind'] == 'int-str' else val)
                                    if self.name == 'TagMap' and val == k:
                                        m.pop(k, None)
                                    else:
                                        m[k] = val
                                else:
                                    self.call(t, spec['insert'], karg)
                                    m[k] = True
                            else:
                                r = self.call(t, spec['delete'], karg)
                                if bool(r) != (k in model):
                                    raise Failed('%s reports %r for a key that was %s' % (spec['delete'], r, 'present' if k in model else 'absent'))
                                m.pop(k, None)
                            self.check_state(t, m, what)
                            snap = self.snapshot(t)
                            if snap not in seen:
                                seen[snap] = True
                                if len(seen) > max_states:
                                    continue
                                self.queries(t, m, universe, what)
                                work.append((t, m, hist + ['%s(%r)' % (spec[op], k)]))
                        except Failed as ex:
                            m_ = str(ex)
                            raise Failed('after %s' % m_ if m_.startswith(what) else 'after %s: %s' % (what, m_))
        return len(seen), ops

    def fill_and_drain(self, n, seed=1):
        """one long history: n distinct keys inserted (pseudo-random hashes, through every resize), every state checked, then all
        deleted in another order"""
        spec = self.spec
        x = seed * 2654435761 % (1 << 32)
        keys = []
        self.hashes = {}
        for i in range(n):
            x = (x * 1103515245 + 12345) % (1 << 31)
            k = ('key%d' % i) if spec['kind'] == 'str' else (1000 + i)
            keys.append(k)
            self.hashes[k] = x >> 3
        self.keep = []
        table = M.Obj(capacity=0, count=0, items=0)
        model = {}
        ops = 0
        hist = []
        order = keys + [keys[(7 * i + 3) % n] for i in range(n)] if n % 7 else keys + keys[::-1]
        for j, k in enumerate(order):
            ins = j < n
            karg = CStr(k) if spec['kind'] == 'str' else k
            self.freed = set()
            what = '%s %s(%r) [%d entries before]' % ('fill:' if ins else 'drain:', spec['insert'] if ins else spec['delete'], k, len(model))
            try:
                if ins:
                    if spec['lookup']:
                        v = CStr('v%d' % j) if spec['kind'] == 'int-str' else (5000 + j)
                        self.call(table, spec['insert'], karg, v)
                        model[k] = str(v) if isinstance(v, str) else v
                    else:
                        self.call(table, spec['insert'], karg)
                        model[k] = True
                else:
                    r = self.call(table, spec['delete'], karg)
                    if bool(r) != (k in model):
                        raise Failed('%s reports %r for a key that was %s' % (spec['delete'], r, 'present' if k in model else 'absent'))
                    model.pop(k, None)
                ops += 1
                self.check_state(table, model, what)
                if j % 5 == 4 or j == n - 1:
                    self.queries(table, model, keys[:min(n, 12)], what)
            except Failed as ex:
                raise Failed('%s: %s' % (what, ex) if not str(ex).startswith(what) else str(ex))
        return ops
