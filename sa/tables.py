"""Switch/if-chain helpers: arms of a switch, enum exhaustiveness (R-EXHAUST), predicate-atom
evaluation of conditions and path pruning (used by R-DEP / R-TABLE style rules)."""
from .facts import AnalysisBroken


def switch_arms(sw):
    """Arms of a switch statement as a list of (labels, stmts) in source order.
    labels: list of case constants (int) or 'default'; stmts: the statements of the arm up to and
    excluding the terminating break (fallthrough into the next labelled arm is followed)."""
    body = sw.child('body')
    if body is None or body.k != 'CompoundStmt':
        raise AnalysisBroken('switch body is not a compound statement at %s' % sw.loc())
    # flatten: each child may be CaseStmt/DefaultStmt nesting (case A: case B: stmt)
    items = []  # (labels or None, stmt)
    for c in body.c:
        if c is None:
            continue
        labels = []
        s = c
        while s is not None and s.k in ('CaseStmt', 'DefaultStmt'):
            if s.k == 'CaseStmt':
                lhs = s.child('lhs')
                labels.append(lhs.cv if lhs is not None else None)
            else:
                labels.append('default')
            s = s.child('sub')
        items.append((labels, s, c))
    arms = []
    i = 0
    while i < len(items):
        labels, s, top = items[i]
        if not labels:
            i += 1
            continue
        stmts = []
        j = i
        first = True
        terminated = False
        while j < len(items):
            lab_j, s_j, _ = items[j]
            if not first and lab_j:
                # fallthrough into the next labelled arm: its statements belong to this arm too
                pass
            first = False
            if s_j is not None:
                if s_j.k == 'BreakStmt':
                    terminated = True
                    break
                stmts.append(s_j)
                if _always_leaves(s_j):
                    terminated = True
                    break
            j += 1
        arms.append((labels, stmts, top))
        i += 1
    return arms


def _always_leaves(s):
    if s.k in ('ReturnStmt', 'BreakStmt', 'GotoStmt', 'ContinueStmt'):
        return True
    if s.k == 'CompoundStmt' and s.c:
        for c in s.c:
            if c is not None and _always_leaves(c):
                return True
        return False
    return False


def arm_for(sw, value):
    for labels, stmts, top in switch_arms(sw):
        if value in labels:
            return stmts
    for labels, stmts, top in switch_arms(sw):
        if 'default' in labels:
            return stmts
    return None


def enum_values(db, qn):
    e = db.enum(qn)
    return {c['n']: c['v'] for c in e['consts']}


def switches_on(fn, type_suffix):
    """switch statements of fn whose condition has the given enum type."""
    out = []
    for n in fn.walk():
        if n.k == 'SwitchStmt':
            c = n.child('cond')
            x = c
            while x is not None and x.k in ('ImplicitCastExpr', 'CStyleCastExpr') and x.child('sub') is not None:
                if (x.t or '').endswith(type_suffix):
                    break
                x = x.child('sub')
            if x is not None and (x.t or '').replace('gdstk::', '').endswith(type_suffix):
                out.append(n)
    return out


def enum_if_chain(fn, type_suffix):
    """(set of enumerator values compared with ==, first IfStmt) for a dispatch on an enum written with if statements; None if there is none"""
    present = set()
    first = None
    for i in fn.walk():
        if i.k != 'IfStmt':
            continue
        for c in i.child('cond').walk():
            if c.k == 'BinaryOperator' and c.op == '==':
                sides = []
                for z in (c.child('lhs'), c.child('rhs')):
                    while z is not None and z.k in ('ImplicitCastExpr', 'CStyleCastExpr') and z.child('sub') is not None:
                        z = z.child('sub')
                    sides.append(z)
                en = [z for z in sides if z is not None and z.k == 'DeclRefExpr' and z.dk == 'enum' and (z.t or '').replace('gdstk::', '').endswith(type_suffix)]
                if len(en) == 1:
                    present.add(en[0].cv)
                    first = first or i
    return (present, first) if present else None


def check_exhaustive(ctx, db, fn, enum_qn, rule='R-EXHAUST', frozen_default=None, min_switches=1):
    """Every switch over enum_qn in fn: without default all enumerators present; with default the
    explicit case set equals frozen_default[(fn.qn, ordinal)] (confirmed by reading)."""
    vals = enum_values(db, enum_qn)
    short = enum_qn.split('::')[-1]
    sws = switches_on(fn, short)
    if len(sws) < min_switches:
        # the same dispatch written as an if chain: `if (x == E::A) .. else if (x == E::B) .. else ..` (or with early returns)
        chain = enum_if_chain(fn, short)
        if chain is not None:
            present, first = chain
            names = {v: k for k, v in vals.items()}
            key = '%s/switch#0:%s' % (fn.qn, short)
            want = None if frozen_default is None else frozen_default.get((fn.qn, 0))
            got = sorted(names.get(v, str(v)) for v in present)
            if want is None:
                missing = sorted(names[v] for v in vals.values() if v not in present)
                ctx.check(not missing, rule, key, first.loc(), 'if chain covers all %d enumerators of %s' % (len(vals), short), 'if chain over %s lacks enumerator(s) %s' % (short, missing))
            else:
                ctx.check(sorted(want) == got, rule, key, first.loc(), 'if chain: explicit cases equal the frozen set %s' % sorted(want),
                          'if chain: explicit cases %s differ from the confirmed set %s' % (got, sorted(want)))
            return 1
        raise AnalysisBroken('%s: expected >= %d switch over %s, found %d' % (fn.qn, min_switches, short, len(sws)))
    for i, sw in enumerate(sws):
        present = set()
        has_default = False
        for labels, stmts, top in switch_arms(sw):
            for l in labels:
                if l == 'default':
                    has_default = True
                else:
                    present.add(l)
        names = {v: k for k, v in vals.items()}
        key = '%s/switch#%d:%s' % (fn.qn, i, short)
        if not has_default:
            missing = sorted(names[v] for v in vals.values() if v not in present)
            ctx.check(not missing, rule, key, sw.loc(), 'switch covers all %d enumerators of %s' % (len(vals), short),
                      'switch over %s lacks enumerator(s) %s and has no default' % (short, missing))
        else:
            want = None if frozen_default is None else frozen_default.get((fn.qn, i))
            got = sorted(names.get(v, str(v)) for v in present)
            if want is None:
                ctx.violation(rule, key, sw.loc(), 'switch over %s has a default arm that is not in the frozen table (explicit cases: %s)' % (short, got))
            else:
                ctx.check(sorted(want) == got, rule, key, sw.loc(), 'switch with default: explicit cases equal the frozen set %s' % sorted(want),
                          'switch with default: explicit cases %s differ from the confirmed set %s' % (got, sorted(want)))
    return len(sws)


# ------------------------------------------------------------------------------------------------
# predicate atoms

def atom_text(n):
    """Canonical text of a condition leaf (parameter/field names kept, casts dropped)."""
    x = n
    while x is not None and x.k in ('ImplicitCastExpr',) and x.child('sub') is not None:
        x = x.child('sub')
    if x.k == 'BinaryOperator' and x.op in ('==', '!=', '<', '>', '<=', '>='):
        return '%s %s %s' % (atom_text(x.child('lhs')), x.op, atom_text(x.child('rhs')))
    if x.k in ('DeclRefExpr',):
        return x.n
    if x.k == 'MemberExpr':
        b = x.child('base')
        arrow = x.arrow
        while b is not None and b.k == 'MemberExpr' and not b.n:
            arrow = b.arrow
            b = b.child('base')
        if not x.n:
            return atom_text(b)
        return (atom_text(b) + ('->' if arrow else '.') if b is not None and b.k != 'CXXThisExpr' else '') + x.n
    if x.cv is not None:
        return str(x.cv)
    if x.fv is not None:
        return repr(float(x.fv))
    return x.text()


def cond_value(n, env):
    """Evaluate a condition under env: {atom text: bool}. Returns True/False/None (unknown).
    Atoms may be given positively ('rotation != 0') — '==' forms are derived."""
    x = n
    while x is not None and x.k in ('ImplicitCastExpr',) and x.child('sub') is not None:
        x = x.child('sub')
    if x.k == 'UnaryOperator' and x.op == '!':
        v = cond_value(x.child('sub'), env)
        return None if v is None else (not v)
    if x.k == 'BinaryOperator' and x.op == '&&':
        a, b = cond_value(x.child('lhs'), env), cond_value(x.child('rhs'), env)
        if a is False or b is False:
            return False
        if a is True and b is True:
            return True
        return None
    if x.k == 'BinaryOperator' and x.op == '||':
        a, b = cond_value(x.child('lhs'), env), cond_value(x.child('rhs'), env)
        if a is True or b is True:
            return True
        if a is False and b is False:
            return False
        return None
    t = atom_text(x)
    if t in env:
        return env[t]
    if x.k == 'BinaryOperator' and x.op in ('==', '!='):
        flip = {'==': '!=', '!=': '=='}[x.op]
        t2 = '%s %s %s' % (atom_text(x.child('lhs')), flip, atom_text(x.child('rhs')))
        if t2 in env:
            return not env[t2]
    if x.k == 'CXXBoolLiteralExpr':
        return bool(x.v)
    return None


def executed(stmts, env, unknown=None, evaluator=None):
    """Simple statements executed by a statement list under env (If pruned by cond_value; loops and
    unknown conditions keep all branches). Yields (stmt, guards) where guards is the list of
    (condition node, taken value) of the enclosing evaluated ifs."""
    out = []

    def go(s, guards):
        if s is None:
            return
        if s.k == 'CompoundStmt':
            for c in s.c:
                go(c, guards)
                if c is not None and c.k in ('ReturnStmt', 'BreakStmt'):
                    break
            return
        if s.k == 'IfStmt':
            v = evaluator(s.child('cond')) if evaluator is not None else cond_value(s.child('cond'), env)
            out.append((s.child('cond'), guards))
            if v is True:
                go(s.child('then'), guards + [(s.child('cond'), True)])
            elif v is False:
                go(s.child('else'), guards + [(s.child('cond'), False)])
            else:
                if unknown is not None:
                    unknown.append(s)
                go(s.child('then'), guards)
                go(s.child('else'), guards)
            return
        if s.k in ('ForStmt', 'WhileStmt', 'DoStmt'):
            for r in ('init', 'cond', 'inc'):
                if s.child(r) is not None:
                    out.append((s.child(r), guards))
            go(s.child('body'), guards)
            return
        if s.k in ('CaseStmt', 'DefaultStmt', 'LabelStmt'):
            go(s.child('sub'), guards)
            return
        out.append((s, guards))
    for s in stmts:
        go(s, [])
    return out


# ------------------------------------------------------------------------------------------------
# path condition of a node in structural form (if/else chains and switch arms give the same atoms)

def path_atoms(node):
    """Conditions under which `node` is reached, as a list of atoms:
      ('eq', key, value, True/False)   key compared with a constant (from `key == c`, `c == key`, or a case label of switch(key))
      ('true', key, True/False)        key (a boolean / pointer) tested for truth
      ('other', text, True/False)      anything else (text of the condition)
    gathered from the enclosing if statements (conjunctions split; a negated branch of a conjunction is kept whole as
    'other') and the enclosing case labels. An `else` after `if (a) .. else if (b)` contributes the negations of a and b."""
    from .flow import lvalue_key, _strip_casts
    out = []

    def atoms_of(c, pol):
        c = _strip_casts(c)
        if c is None:
            return
        if c.k == 'BinaryOperator' and c.op == '&&' and pol:
            atoms_of(c.child('lhs'), True)
            atoms_of(c.child('rhs'), True)
            return
        if c.k == 'BinaryOperator' and c.op == '||' and not pol:
            atoms_of(c.child('lhs'), False)
            atoms_of(c.child('rhs'), False)
            return
        if c.k == 'UnaryOperator' and c.op == '!':
            atoms_of(c.child('sub'), not pol)
            return
        if c.k == 'BinaryOperator' and c.op in ('==', '!='):
            l, r = _strip_casts(c.child('lhs')), _strip_casts(c.child('rhs'))
            for a, b in ((l, r), (r, l)):
                if b is not None and b.cv is not None and lvalue_key(a) is not None and not (a.k == 'DeclRefExpr' and a.dk == 'enum'):
                    out.append(('eq', lvalue_key(a), b.cv, pol == (c.op == '==')))
                    return
        k = lvalue_key(c)
        if k is not None and c.k in ('DeclRefExpr', 'MemberExpr'):
            out.append(('true', k, pol))
            return
        out.append(('other', ' '.join(c.text().split()), pol))
    x, prev = node.parent, node
    while x is not None:
        if x.k == 'IfStmt':
            if prev is x.child('then'):
                atoms_of(x.child('cond'), True)
            elif prev is x.child('else'):
                atoms_of(x.child('cond'), False)
        elif x.k == 'CaseStmt' and prev is x.child('sub'):
            sw = next((a for a in x.ancestors() if a.k == 'SwitchStmt'), None)
            if sw is not None and x.child('lhs') is not None:
                out.append(('eq', lvalue_key(_strip_casts(sw.child('cond'))), x.child('lhs').cv, True))
        elif x.k == 'CompoundStmt' and x.parent is not None and x.parent.k == 'SwitchStmt':
            # statement list of a switch body: the governing label is the nearest preceding case in the list
            lab = None
            for c in x.c:
                if c is None:
                    continue
                if c.k in ('CaseStmt', 'DefaultStmt'):
                    lab = c
                if c is prev:
                    break
            if lab is not None and lab is not prev and lab.k == 'CaseStmt' and lab.child('lhs') is not None:
                out.append(('eq', lvalue_key(_strip_casts(x.parent.child('cond'))), lab.child('lhs').cv, True))
        prev, x = x, x.parent
    return out


def _leaves(s):
    if s is None:
        return False
    if s.k in ('ReturnStmt', 'BreakStmt', 'ContinueStmt', 'GotoStmt'):
        return True
    if s.k == 'CompoundStmt':
        return any(c is not None and _leaves(c) for c in s.c)
    return False


def path_conds(node, stop=None):
    """[(condition node, truth value)] under which `node` runs inside `stop` (default: the function body): the enclosing if
    statements, and the guard clauses that precede it in the enclosing blocks (`if (c) continue;` / `return` / `break` with
    no else: everything after it runs under !c). `if (a && b) S` and `if (!a) continue; if (b) S` give the same conditions."""
    out = []
    x, prev = node.parent, node
    while x is not None and prev is not stop:
        if x.k == 'IfStmt':
            if prev is x.child('then'):
                out.append((x.child('cond'), True))
            elif prev is x.child('else'):
                out.append((x.child('cond'), False))
        elif x.k == 'CompoundStmt':
            for c in x.c:
                if c is None:
                    continue
                if c is prev:
                    break
                if c.k == 'IfStmt' and c.child('else') is None and _leaves(c.child('then')):
                    out.append((c.child('cond'), False))
        prev, x = x, x.parent
    # `!c` under polarity p is `c` under polarity not p
    from .flow import _strip_casts
    res = []
    for cnd, pol in out:
        cur = cnd
        while True:
            c = _strip_casts(cur)
            if c is not None and c.k == 'UnaryOperator' and c.op == '!' and c.child('sub') is not None:
                cur = c.child('sub')        # (the operand keeps its own conversion, e.g. pointer to bool)
                pol = not pol
            else:
                break
        res.append((cur, pol))
    return res


def path_atoms_with_guards(node, stop=None):
    """path_atoms extended with the guard clauses that precede the node in its blocks (`if (c) { ...; continue; }` => !c afterwards)"""
    from .flow import lvalue_key, _strip_casts
    out = list(path_atoms(node))
    for cnd, pol in path_conds(node, stop=stop):
        # conditions of enclosing ifs are already in path_atoms; add only the guard clauses (preceding siblings)
        if any(cnd is a for a in _enclosing_conds(node)):
            continue
        c = _strip_casts(cnd)
        neg = not pol
        if c.k == 'BinaryOperator' and c.op in ('==', '!='):
            l, r = _strip_casts(c.child('lhs')), _strip_casts(c.child('rhs'))
            for a, b in ((l, r), (r, l)):
                if b is not None and b.cv is not None and lvalue_key(a) is not None and not (a.k == 'DeclRefExpr' and a.dk == 'enum'):
                    out.append(('eq', lvalue_key(a), b.cv, (c.op == '==') != neg))
                    break
            else:
                out.append(('other', ' '.join(c.text().split()), pol))
        else:
            k = lvalue_key(c)
            out.append(('true', k, pol) if k else ('other', ' '.join(c.text().split()), pol))
    return out


def _enclosing_conds(node):
    x, prev = node.parent, node
    out = []
    while x is not None:
        if x.k == 'IfStmt' and (prev is x.child('then') or prev is x.child('else')):
            out.append(x.child('cond'))
        prev, x = x, x.parent
    return out
