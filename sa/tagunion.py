"""R-TAGUNION — tagged-union discipline for Reference{type; cell|rawcell|name}."""
from .flow import lvalue_key, is_assign, _strip_casts
from . import tables

MEMBER_TAG = {'cell': 'Cell', 'rawcell': 'RawCell', 'name': 'Name'}


def _base_key(m):
    b = m.child('base')
    while b is not None and b.k == 'MemberExpr' and not b.n:
        b = b.child('base')
    return lvalue_key(b) if b is not None and b.k != 'CXXThisExpr' else 'this'


_ALIASES = {}


def tag_aliases(fn):
    """bases whose tag was copied from another object's tag: `A.type = B.type` => {A: {B}, B: {A}}"""
    if id(fn) in _ALIASES:
        return _ALIASES[id(fn)]
    al = {}
    for s in fn.walk():
        if is_assign(s) and s.op == '=':
            l, r = _strip_casts(s.child('lhs')), _strip_casts(s.child('rhs'))
            if l.k == 'MemberExpr' and l.n == 'type' and r is not None and r.k == 'MemberExpr' and r.n == 'type' and l.rec == 'gdstk::Reference' and r.rec == 'gdstk::Reference':
                a, b = _base_key(l), _base_key(r)
                al.setdefault(a, set()).add(b)
                al.setdefault(b, set()).add(a)
    _ALIASES[id(fn)] = al
    return al


def _same_base(x, base, fn):
    return x == base or (fn is not None and x in tag_aliases(fn).get(base, ()))


def _tag_test(c, base, fn=None):
    """If condition c (no &&/||) is `<base>->type ==/!= ReferenceType::T` return (T, is_eq)."""
    c = _strip_casts(c)
    if c is None or c.k != 'BinaryOperator' or c.op not in ('==', '!='):
        return None
    l, r = _strip_casts(c.child('lhs')), _strip_casts(c.child('rhs'))
    for a, b in ((l, r), (r, l)):
        if a.k == 'MemberExpr' and a.n == 'type' and _same_base(_base_key(a), base, fn) and b.k == 'DeclRefExpr' and b.dk == 'enum' and 'ReferenceType::' in (b.qn or ''):
            return b.qn.split('::')[-1], c.op == '=='
    return None


def _conjuncts(c):
    c = _strip_casts(c)
    if c is not None and c.k == 'BinaryOperator' and c.op == '&&':
        return _conjuncts(c.child('lhs')) + _conjuncts(c.child('rhs'))
    return [c]


def _disjuncts(c):
    c = _strip_casts(c)
    while c is not None and c.k == 'ParenExpr':
        c = _strip_casts(c.c[0])
    if c is not None and c.k == 'BinaryOperator' and c.op == '||':
        return _disjuncts(c.child('lhs')) + _disjuncts(c.child('rhs'))
    return [c]


def established_tags(node, base, fn):
    """Set of tags the union may hold at `node` according to enclosing tests / case arms / early-exit
    guards / a preceding tag store in the same block (constraints are intersected; a tag store is
    authoritative for everything above it). None when nothing establishes it."""
    ALL = {'Cell', 'RawCell', 'Name'}
    cons = []
    cur = node
    for a in node.ancestors():
        if a.k == 'IfStmt':
            in_then = a.child('then') is cur
            in_else = a.child('else') is cur
            cjs = _conjuncts(a.child('cond'))
            for cj in cjs:
                tt = _tag_test(cj, base, fn)
                if not tt:
                    continue
                if in_then and tt[1]:
                    cons.append({tt[0]})
                elif len(cjs) == 1:
                    if in_else and tt[1]:
                        cons.append(ALL - {tt[0]})
                    elif in_then and not tt[1]:
                        cons.append(ALL - {tt[0]})
                    elif in_else and not tt[1]:
                        cons.append({tt[0]})
        elif a.k == 'BinaryOperator' and a.op == '&&':
            if a.child('rhs') is cur:
                for cj in _conjuncts(a.child('lhs')):
                    tt = _tag_test(cj, base, fn)
                    if tt and tt[1]:
                        cons.append({tt[0]})
        elif a.k == 'BinaryOperator' and a.op == '||':
            if a.child('rhs') is cur:
                # the right operand of `||` is evaluated only when every disjunct on the left is false
                for dj in _disjuncts(a.child('lhs')):
                    tt = _tag_test(dj, base, fn)
                    if tt:
                        cons.append({tt[0]} if not tt[1] else ALL - {tt[0]})
        elif a.k == 'ConditionalOperator':
            tt = _tag_test(a.child('cond'), base, fn)
            if tt:
                if cur is a.child('then'):
                    cons.append({tt[0]} if tt[1] else ALL - {tt[0]})
                elif cur is a.child('else'):
                    cons.append((ALL - {tt[0]}) if tt[1] else {tt[0]})
        elif a.k == 'SwitchStmt':
            c = _strip_casts(a.child('cond'))
            if c is not None and c.k == 'MemberExpr' and c.n == 'type' and _same_base(_base_key(c), base, fn):
                for labels, stmts, top in tables.switch_arms(a):
                    if any(any(x is node for x in s.walk()) for s in stmts):
                        cons.append({{0: 'Cell', 1: 'RawCell', 2: 'Name'}.get(l, 'default') for l in labels})
                        break
        elif a.k == 'CompoundStmt':
            idx = next((i for i, s in enumerate(a.c) if s is cur), None)
            stop = False
            if idx is not None:
                for s in reversed(a.c[:idx]):
                    if s is None:
                        continue
                    if s.k == 'IfStmt' and s.child('else') is None and tables._always_leaves(s.child('then')) and len(_conjuncts(s.child('cond'))) == 1:
                        # `if (A || B) leave;`: afterwards every disjunct is false
                        for dj in _disjuncts(s.child('cond')):
                            tt = _tag_test(dj, base, fn)
                            if tt:
                                cons.append({tt[0]} if not tt[1] else ALL - {tt[0]})
                    if is_assign(s) and s.op == '=' and s.child('lhs').k == 'MemberExpr' and s.child('lhs').n == 'type' and _base_key(s.child('lhs')) == base:
                        r = _strip_casts(s.child('rhs'))
                        if r.k == 'DeclRefExpr' and r.dk == 'enum':
                            cons.append({r.qn.split('::')[-1]})
                            stop = True
                            break
                        if r.k == 'MemberExpr' and r.n == 'type':
                            continue  # tag copied from another object: that object's tests count (alias)
                        stop = True
                        break
            if stop:
                break
        cur = a
    if not cons:
        return None
    res = None
    for c in cons:
        res = set(c) if res is None else (res & set(c))
    return res


def _retag_follows(m, base, want):
    """m is the target of a plain store `base->member = v;` and a later sibling statement stores the
    member's tag, with no statement in between that reads a union member of the same object."""
    st = m.parent
    while st is not None and st.k in ('ImplicitCastExpr', 'ParenExpr'):
        st = st.parent
    if st is None or not is_assign(st) or st.op != '=' or _strip_casts(st.child('lhs')) is not m:
        return False
    blk = st.parent
    if blk is None or blk.k != 'CompoundStmt':
        return False
    idx = next((i for i, x in enumerate(blk.c) if x is st), None)
    for s in blk.c[idx + 1:]:
        if s is None:
            continue
        if is_assign(s) and s.op == '=' and s.child('lhs').k == 'MemberExpr' and s.child('lhs').n == 'type' and _base_key(s.child('lhs')) == base:
            r = _strip_casts(s.child('rhs'))
            return r.k == 'DeclRefExpr' and r.dk == 'enum' and r.qn.split('::')[-1] == want
        if any(x.k == 'MemberExpr' and x.rec == 'gdstk::Reference' and x.n in MEMBER_TAG and _base_key(x) == base for x in s.walk()):
            return False
    return False


def check_function(ctx, fn, rule='R-TAGUNION', accept_pointer_pun=True, universe=None):
    """Every access to Reference::{cell,rawcell,name} happens where the tag is established to be the
    member's tag (pointer members cell|rawcell may pun each other when both are possible and the
    access is a plain pointer copy)."""
    n = 0
    for m in fn.walk():
        if m.k != 'MemberExpr' or m.rec != 'gdstk::Reference' or m.n not in MEMBER_TAG:
            continue
        base = _base_key(m)
        # find the statement-level node for block-order reasoning
        tags = established_tags(m, base, fn)
        if tags is not None and universe is not None:
            tags = tags & universe  # the function only ever creates references of these kinds
        # a store of the member immediately preceded/followed by a tag store in the same block
        n += 1
        key = '%s/%s->%s@%d' % (fn.qn, base.split(':')[-1] if base else '?', m.n, m.id)
        want = MEMBER_TAG[m.n]
        if (tags is None or tags != {want}) and _retag_follows(m, base, want):
            ctx.ok(rule, key, m.loc(), 'member `%s` is stored and the tag is set to %s by a following statement of the same block (kind transition)' % (m.n, want))
            continue
        if tags is None:
            ctx.violation(rule, key, m.loc(), 'access to union member `%s` without an established tag (no enclosing `type == %s` test, case arm or preceding tag store)' % (m.n, want))
            continue
        ok = tags == {want}
        if not ok and accept_pointer_pun and m.n in ('cell', 'rawcell') and tags <= {'Cell', 'RawCell'}:
            ok = True  # pointer members share representation (copy_from's else branch)
        ctx.check(ok, rule, key, m.loc(), 'member `%s` accessed under tag %s' % (m.n, sorted(tags)), 'union member `%s` (tag %s) is accessed where the tag is %s' % (m.n, want, sorted(tags)))
    return n
