"""Width / sign / representation rules (R-WIDTH): values keep the width and signedness their meaning requires.

  narrowed_comparisons   a non-constant integer is explicitly cast to a narrower type inside a comparison (a 64-bit stored key
                         compared as 16 bits answers for every key that agrees modulo 2^16)
  cstring_on_binary      a length-delimited byte buffer (`bytes` of a PropertyValue) handed to a function that reads up to a NUL
  conversion_chain       the casts a decoded field goes through on its way to where it is stored (sibling decoders must agree)"""
from .flow import _strip_casts, lvalue_key

W = {'bool': 1, 'uint8_t': 8, 'int8_t': 8, 'char': 8, 'unsigned char': 8, 'signed char': 8, 'uint16_t': 16, 'int16_t': 16, 'short': 16, 'unsigned short': 16, 'uint32_t': 32, 'int32_t': 32,
     'int': 32, 'unsigned int': 32, 'uint64_t': 64, 'int64_t': 64, 'unsigned long': 64, 'long': 64, 'size_t': 64, 'gdstk::Tag': 64, 'Tag': 64, 'long long': 64, 'unsigned long long': 64}
CSTRING_FUNCS = {'strcmp', 'strncmp', 'strlen', 'strcpy', 'strncpy', 'strcat', 'strdup', 'strstr', 'strchr', 'fputs', 'puts', 'atoi', 'atof', 'strtol', 'strtod'}


def width(t):
    return W.get((t or '').replace('const ', '').strip())


def _uncast_implicit(n):
    while n is not None and n.k == 'ImplicitCastExpr' and n.child('sub') is not None:
        n = n.child('sub')
    return n


def _is_constant(n):
    return n is not None and (n.cv is not None or all(x.k not in ('DeclRefExpr', 'MemberExpr', 'CallExpr', 'CXXMemberCallExpr') or (x.k == 'DeclRefExpr' and x.dk == 'enum') for x in n.walk()))


def narrowed_comparisons(fn):
    """[(comparison node, cast node, from-width, to-width)]"""
    out = []
    for x in fn.walk():
        if x.k != 'BinaryOperator' or x.op not in ('==', '!=', '<', '>', '<=', '>='):
            continue
        for side in (x.child('lhs'), x.child('rhs')):
            n = _uncast_implicit(side)
            if n is not None and n.k in ('CStyleCastExpr', 'CXXStaticCastExpr', 'CXXFunctionalCastExpr'):
                s0 = _uncast_implicit(n.child('sub'))
                wt, ws = width(n.t), width(s0.t) if s0 is not None else None
                if wt and ws and wt < ws and not _is_constant(s0):
                    out.append((x, n, ws, wt))
    return out


def cstring_on_binary(fn, field='bytes', rec_contains='PropertyValue'):
    """[(call node, argument)] for calls of NUL-terminated-string functions whose argument is `<x>->bytes` / `<x>.bytes`"""
    out = []
    for c in fn.walk():
        if c.k != 'CallExpr' or (c.callee or '').split('::')[-1] not in CSTRING_FUNCS:
            continue
        for a in c.args:
            a0 = _strip_casts(a)
            if a0 is not None and a0.k == 'MemberExpr' and a0.n == field and rec_contains in (a0.rec or rec_contains):
                out.append((c, a0))
    return out


def conversion_chain(node):
    """types the value of `node` is converted through (explicit and implicit casts) up to the first non-cast ancestor"""
    out = [(node.t or '').replace('const ', '')]
    p, prev = node.parent, node
    while p is not None and p.k in ('ImplicitCastExpr', 'CStyleCastExpr', 'CXXStaticCastExpr', 'CXXFunctionalCastExpr'):
        if p.k == 'ImplicitCastExpr' and p.cast in ('LValueToRValue', 'NoOp'):
            prev, p = p, p.parent
            continue
        t = (p.t or '').replace('const ', '')
        if t != out[-1]:
            out.append(t)
        prev, p = p, p.parent
    # the destination: a variable initialised / assigned, or a parameter of the callee
    if p is not None and p.k == 'VarDecl':
        t = (p.t or '').replace('const ', '')
        if t != out[-1]:
            out.append(t)
    return tuple(out)
