"""Second opinions from generic tools (thorough tier). Findings are recorded in evidence only;
a generic lint is never relabelled as the property (DESIGN.md §2.2)."""
import os
import re
import subprocess
from . import facts


def run(pid, ctx, mod):
    files = getattr(mod, 'XREF_FILES', None)
    if not files:
        return
    out = {}
    units = [os.path.join(facts.REPO, f) for f in files]
    fl = facts.flags(facts.REPO)
    # clang -Wswitch as zero-code half of R-EXHAUST
    def one(u):
        p = subprocess.run(['clang++', '-fsyntax-only', '-Wswitch', '-Werror=switch'] + fl + [u], stdout=subprocess.PIPE, stderr=subprocess.STDOUT, text=True)
        return p.returncode, p.stdout
    from concurrent.futures import ThreadPoolExecutor
    with ThreadPoolExecutor(16) as ex:
        res = list(ex.map(one, units))
    out['clang_Wswitch_errors'] = sum(len(re.findall(r'error: .*\[-Werror,-Wswitch\]', o)) for _, o in res)
    checks = getattr(mod, 'XREF_TIDY', 'clang-analyzer-unix.Malloc,clang-analyzer-core.NullDereference,bugprone-infinite-loop')
    def tidy(u):
        p = subprocess.run(['clang-tidy-14', '-checks=-*,' + checks, u, '--'] + fl, stdout=subprocess.PIPE, stderr=subprocess.DEVNULL, text=True)
        return re.findall(r'^(\S+:\d+):\d+: warning: (.*)$', p.stdout, re.M)
    with ThreadPoolExecutor(16) as ex:
        tres = list(ex.map(tidy, units))
    ws = sorted({(facts.relpath(a), b) for r in tres for a, b in r if '/repo/' in a or facts.REPO in a})
    out['clang_tidy_checks'] = checks
    out['clang_tidy_warnings'] = ['%s: %s' % w for w in ws][:40]
    ctx.extra['second_opinions'] = out
    print('  xref: -Wswitch errors=%d, clang-tidy warnings=%d (evidence only)' % (out['clang_Wswitch_errors'], len(ws)))
