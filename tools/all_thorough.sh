#!/bin/bash
# tools/all_thorough.sh [-P n]  - run the thorough tier of all 20 checks in parallel; summary lines only
P=${2:-4}
# each check runs its variants in GDSTK_SA_JOBS worker processes: P x jobs should not exceed the cores
export GDSTK_SA_JOBS=${GDSTK_SA_JOBS:-$(( $(nproc) / P > 0 ? $(nproc) / P : 1 ))}
cd "$(dirname "$0")/.."
make -s build/gx || exit 2
seq -w 1 20 | xargs -P $P -I{} sh -c './check C{} --tier thorough > build/thorough.C{}.log 2>&1; echo "C{} rc=$? $(grep -c "missed   (expected caught)\|caught   (expected silent)" build/thorough.C{}.log) unexpected"'
grep -h "missed   (expected caught)\|caught   (expected silent)\|ANALYSIS-BROKEN\|^VIOLATION" build/thorough.C*.log | sort | uniq -c | head -60
