#!/usr/bin/env python3
"""tools/benignmeta.py <benign-dir> [check ...]   merge agent_meta.json + confirm.json into meta.json.
`checks` (default: all) lists the registered checks whose self-test applies the patch and must stay silent."""
import json, sys, os
d = sys.argv[1]
checks = sys.argv[2:] or ['all']
am = json.load(open(os.path.join(d, 'agent_meta.json'))) if os.path.exists(os.path.join(d, 'agent_meta.json')) else {}
cf = json.load(open(os.path.join(d, 'confirm.json')))
meta = {'summary': am.get('summary'), 'why_behaviour_preserving': am.get('why_preserving') or am.get('why') or am.get('why_behaviour_preserving'),
        'origin': 'independent sub-agent asked for a behaviour-preserving refactoring of one function (given only the repository, nothing from /verif)',
        'what_i_ran': 'tools/confirm_benign.sh %s (scratch worktree of /repo HEAD %s: demo digest with the original library == digest with the patched library: %s, %s lines; patched build rc=%s; ctest "%s")' % (
            d, cf.get('repo_head'), cf.get('digest_identical'), cf.get('digest_lines'), cf.get('patched_build_rc'), cf.get('patched_ctest')),
        'confirmed': cf.get('confirmed'), 'checks': checks}
json.dump(meta, open(os.path.join(d, 'meta.json'), 'w'), indent=1)
print(d, meta['confirmed'], checks)
