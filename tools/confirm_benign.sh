#!/bin/bash
# tools/confirm_benign.sh <dir-with patch.diff demo.cpp> - independent confirmation that a change preserves behaviour:
# scratch worktree of /repo HEAD; digest printed by the demo with the original library == digest with the patched
# library; the 18 tests pass with the patch. Writes <dir>/confirm.json. The worktree is removed afterwards.
set -u
DIR=$(readlink -f "$1")
EXTRA_LD=""; [ -f $DIR/ldflags ] && EXTRA_LD=$(cat $DIR/ldflags)
W=$(mktemp -d /tmp/gdstk-benign.XXXXXX); rmdir $W
git -C /repo worktree add -q --detach $W HEAD || exit 2
cleanup() { git -C /repo worktree remove --force $W 2>/dev/null; rm -rf $W; }
trap cleanup EXIT
cd $W
build() { cmake -G Ninja -S $W -B $W/_build -DCMAKE_BUILD_TYPE=RelWithDebInfo >/dev/null 2>&1 && cmake --build $W/_build --target all examples >$W/build.log 2>&1; }
demo() { g++ -std=c++17 -O1 -g -I$W/include -I$W/external $DIR/demo.cpp $W/_build/src/libgdstk.a $W/_build/external/libclipper.a -lz -lqhull_r $EXTRA_LD -o $W/demo >$W/demo_build.log 2>&1 || return 99; mkdir -p $W/run; (cd $W/run && timeout 120 $W/demo >$1 2>$W/demo.err); return $?; }
build || { echo '{"error":"original build failed"}' > $DIR/confirm.json; exit 2; }
demo $W/digest0; RC0=$?
git apply $DIR/patch.diff 2>$W/apply.err || { echo "{\"error\":\"patch does not apply to /repo HEAD\"}" > $DIR/confirm.json; cat $W/apply.err; exit 3; }
build; BRC=$?
TESTS=$(cd $W/_build && ctest -j8 --timeout 900 2>&1 | grep -E "tests passed|tests failed" | head -1)
echo "$TESTS" | grep -q "100% tests passed" || TESTS=$(cd $W/_build && ctest --timeout 900 2>&1 | grep -E "tests passed" | head -1)
demo $W/digest1; RC1=$?
SAME=false; cmp -s $W/digest0 $W/digest1 && [ -s $W/digest0 ] && SAME=true
LINES=$(wc -l < $W/digest0)
HEAD=$(git -C /repo rev-parse --short HEAD)
cat > $DIR/confirm.json <<EOJ
{"repo_head":"$HEAD","demo_original_rc":$RC0,"patched_build_rc":$BRC,"patched_ctest":"$TESTS","demo_patched_rc":$RC1,"digest_lines":$LINES,"digest_identical":$SAME,
 "confirmed": $( [ $RC0 -eq 0 ] && [ $BRC -eq 0 ] && [ $RC1 -eq 0 ] && [ $SAME = true ] && echo "$TESTS" | grep -q "100% tests passed, 0 tests failed out of 18" && echo true || echo false )}
EOJ
cat $DIR/confirm.json
