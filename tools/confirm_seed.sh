#!/bin/bash
# tools/confirm_seed.sh <dir-with patch.diff demo.cpp>  — independent confirmation of a seeded change:
# scratch worktree of /repo HEAD: demo passes on the original; with the patch the 18 tests still pass
# and the demo fails. Writes <dir>/confirm.json. The worktree and its build are removed afterwards.
set -u
DIR=$(readlink -f "$1")
W=$(mktemp -d /tmp/gdstk-confirm.XXXXXX); rmdir $W
git -C /repo worktree add -q --detach $W HEAD || exit 2
cleanup() { git -C /repo worktree remove --force $W 2>/dev/null; rm -rf $W; }
trap cleanup EXIT
cd $W
build() { cmake -G Ninja -S $W -B $W/_build -DCMAKE_BUILD_TYPE=RelWithDebInfo >/dev/null 2>&1 && cmake --build $W/_build --target all examples >$W/build.log 2>&1; }
demo() { g++ -std=c++17 -O1 -g -I$W/include -I$W/external $DIR/demo.cpp $W/_build/src/libgdstk.a $W/_build/external/libclipper.a -lz -lqhull_r -o $W/demo >$W/demo_build.log 2>&1 || return 99; (cd $W/_build && timeout 60 $W/demo >$W/demo.out 2>&1); return $?; }
build || { echo "{\"error\":\"original build failed\"}" > $DIR/confirm.json; exit 2; }
demo; RC0=$?
git apply $DIR/patch.diff 2>$W/apply.err || { echo "{\"error\":\"patch does not apply to /repo HEAD\",\"demo_original_rc\":$RC0}" > $DIR/confirm.json; cat $W/apply.err; exit 3; }
build; BRC=$?
WARN=$(grep -c "warning:" $W/build.log)
TESTS=$(cd $W/_build && ctest -j8 --timeout 900 2>&1 | grep -E "tests passed|tests failed" | head -1)
# filtering depends on layout's output file; rerun serially if the parallel run raced
echo "$TESTS" | grep -q "100% tests passed" || TESTS=$(cd $W/_build && ctest --timeout 900 2>&1 | grep -E "tests passed" | head -1)
demo; RC1=$?
TAIL=$(tail -c 600 $W/demo.out | python3 -c "import sys,json;print(json.dumps(sys.stdin.read()))")
HEAD=$(git -C /repo rev-parse --short HEAD)
cat > $DIR/confirm.json <<EOJ
{"repo_head":"$HEAD","demo_original_rc":$RC0,"patched_build_rc":$BRC,"patched_ctest":"$TESTS","demo_patched_rc":$RC1,"demo_patched_output_tail":$TAIL,
 "confirmed": $( [ $RC0 -eq 0 ] && [ $BRC -eq 0 ] && [ $RC1 -ne 0 ] && echo "$TESTS" | grep -q "100% tests passed, 0 tests failed out of 18" && echo true || echo false )}
EOJ
cat $DIR/confirm.json
