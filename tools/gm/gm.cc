// gm — generator of behaviour-preserving source rewrites (libTooling, clang 14) used to measure and to guard the
// false-alarm rate of the static checks. Every rewrite is semantics preserving BY CONSTRUCTION (no judgement involved):
//   rename     a local variable gets a fresh name
//   ifswap     if (c) {A} else {B}            ->  if (!(c)) {B} else {A}
//   for2while  for (i; c; s) {B}  (no continue) -> { i; while (c) { B s; } }
//   while2for  while (c) S                     ->  for (; c;) S
//   condtemp   if (c) S   (statement in a block) -> const bool t = (c); if (t) S
//   expand     a op= b;   (scalar, plain lvalue) -> a = a op (b);
//   preinc     x++;       (statement)           -> ++x;
//   commute    a == b / a != b (built-in, pure) -> (b) == (a)
//   brace      if (c) S;                        -> if (c) { S; }
//   declsplit  T x = e;   (scalar, in a block)  -> T x; x = e;
// Usage: gm --list FILE -- flags            one JSON line per applicable site {"id","kind","file","line","func"}
//        gm --apply ID --out PATH FILE -- flags   writes the file that contains the site, rewritten, to PATH
// Only sites spelled (not from macros) in files under --root are offered.
#include "clang/AST/ASTConsumer.h"
#include "clang/AST/ASTContext.h"
#include "clang/AST/ParentMapContext.h"
#include "clang/AST/RecursiveASTVisitor.h"
#include "clang/Frontend/CompilerInstance.h"
#include "clang/Frontend/FrontendAction.h"
#include "clang/Lex/Lexer.h"
#include "clang/Rewrite/Core/Rewriter.h"
#include "clang/Tooling/CommonOptionsParser.h"
#include "clang/Tooling/Tooling.h"
#include "llvm/Support/CommandLine.h"
#include "llvm/Support/raw_ostream.h"
#include <map>
#include <set>
#include <string>
#include <vector>

using namespace clang;
using namespace clang::tooling;

static llvm::cl::OptionCategory Cat("gm options");
static llvm::cl::opt<bool> List("list", llvm::cl::cat(Cat));
static llvm::cl::opt<int> Apply("apply", llvm::cl::init(-1), llvm::cl::cat(Cat));
static llvm::cl::opt<std::string> Out("out", llvm::cl::cat(Cat));
static llvm::cl::list<std::string> Roots("root", llvm::cl::cat(Cat));

namespace {

struct Site {
    std::string kind;
    const Stmt* S = nullptr;
    const VarDecl* V = nullptr;
    const FunctionDecl* F = nullptr;
    SourceLocation Loc;
};

class V : public RecursiveASTVisitor<V> {
   public:
    ASTContext& Ctx;
    SourceManager& SM;
    const LangOptions& LO;
    std::vector<Site> Sites;
    const FunctionDecl* Cur = nullptr;
    std::set<std::string> Names;   // identifiers used in the current function

    V(ASTContext& C) : Ctx(C), SM(C.getSourceManager()), LO(C.getLangOpts()) {}

    bool shouldVisitTemplateInstantiations() const { return false; }

    bool underRoot(SourceLocation L) {
        if (L.isInvalid() || L.isMacroID()) return false;
        std::string f = SM.getFilename(SM.getSpellingLoc(L)).str();
        for (auto& r : Roots)
            if (f.compare(0, r.size(), r) == 0) return true;
        return false;
    }
    bool plain(SourceRange R) {
        return R.isValid() && !R.getBegin().isMacroID() && !R.getEnd().isMacroID() && underRoot(R.getBegin()) &&
               SM.getFileID(R.getBegin()) == SM.getFileID(R.getEnd());
    }
    bool noMacroInside(const Stmt* S) {
        if (!S) return true;
        if (S->getBeginLoc().isMacroID() || S->getEndLoc().isMacroID()) return false;
        for (const Stmt* c : S->children())
            if (!noMacroInside(c)) return false;
        return true;
    }
    void add(const char* kind, const Stmt* S, SourceLocation L, const VarDecl* Vd = nullptr) {
        Site s;
        s.kind = kind;
        s.S = S;
        s.V = Vd;
        s.F = Cur;
        s.Loc = L;
        Sites.push_back(s);
    }
    const Stmt* parentStmt(const Stmt* S) {
        auto P = Ctx.getParents(*S);
        if (P.empty()) return nullptr;
        return P[0].get<Stmt>();
    }
    static bool hasOwnContinue(const Stmt* S) {
        if (!S) return false;
        if (isa<ContinueStmt>(S)) return true;
        if (isa<ForStmt>(S) || isa<WhileStmt>(S) || isa<DoStmt>(S) || isa<CXXForRangeStmt>(S)) return false;
        for (const Stmt* c : S->children())
            if (hasOwnContinue(c)) return true;
        return false;
    }
    // no call, no store to anything but plain local variables: nothing in it can change a member read outside
    static bool bodyIsQuiet(const Stmt* S) {
        if (!S) return true;
        if (isa<CallExpr>(S) || isa<CXXConstructExpr>(S) || isa<CXXNewExpr>(S) || isa<CXXDeleteExpr>(S)) return false;
        if (auto* B = dyn_cast<BinaryOperator>(S))
            if (B->isAssignmentOp() && !isa<DeclRefExpr>(B->getLHS()->IgnoreParenImpCasts())) return false;
        if (auto* U = dyn_cast<UnaryOperator>(S))
            if (U->isIncrementDecrementOp() && !isa<DeclRefExpr>(U->getSubExpr()->IgnoreParenImpCasts())) return false;
        for (const Stmt* c : S->children())
            if (!bodyIsQuiet(c)) return false;
        return true;
    }
    static bool simpleLvalue(const Expr* E) {
        E = E->IgnoreParenImpCasts();
        if (isa<DeclRefExpr>(E)) return true;
        if (auto* M = dyn_cast<MemberExpr>(E)) return isa<CXXThisExpr>(M->getBase()->IgnoreParenImpCasts()) || simpleLvalue(M->getBase());
        return false;
    }

    bool TraverseFunctionDecl(FunctionDecl* D) { return fn(D, [&] { return RecursiveASTVisitor::TraverseFunctionDecl(D); }); }
    bool TraverseCXXMethodDecl(CXXMethodDecl* D) { return fn(D, [&] { return RecursiveASTVisitor::TraverseCXXMethodDecl(D); }); }
    template <class T>
    bool fn(FunctionDecl* D, T go) {
        if (!D->doesThisDeclarationHaveABody() || !underRoot(D->getLocation())) return true;
        const FunctionDecl* save = Cur;
        Cur = D;
        bool r = go();
        Cur = save;
        return r;
    }

    bool VisitVarDecl(VarDecl* D) {
        if (!Cur || !D->isLocalVarDecl() || isa<ParmVarDecl>(D) || D->isStaticLocal()) return true;
        if (!underRoot(D->getLocation()) || D->getName().empty()) return true;
        add("rename", nullptr, D->getLocation(), D);
        return true;
    }
    bool VisitIfStmt(IfStmt* S) {
        if (!Cur || !plain(S->getSourceRange()) || S->getInit() || S->getConditionVariable() || S->isConstexpr()) return true;
        if (!noMacroInside(S->getCond())) return true;
        if (S->getElse() && isa<CompoundStmt>(S->getThen()) && isa<CompoundStmt>(S->getElse()) && noMacroInside(S->getThen()) && noMacroInside(S->getElse()))
            add("ifswap", S, S->getIfLoc());
        const Stmt* P = parentStmt(S);
        if (P && isa<CompoundStmt>(P)) add("condtemp", S, S->getIfLoc());
        // `if (c) {S}` as the last statement of a void function body -> `if (!(c)) return; S`
        if (P && isa<CompoundStmt>(P) && !S->getElse() && isa<CompoundStmt>(S->getThen()) && noMacroInside(S->getThen()) && Cur && Cur->getReturnType()->isVoidType() &&
            Cur->getBody() == P && cast<CompoundStmt>(P)->body_back() == S && !isa<CXXConstructorDecl>(Cur) && !isa<CXXDestructorDecl>(Cur)) {
            bool decl = false;
            for (const Stmt* c : cast<CompoundStmt>(S->getThen())->body()) decl |= false && isa<DeclStmt>(c);
            add("earlyret", S, S->getIfLoc());
        }
        if (!isa<CompoundStmt>(S->getThen()) && !isa<IfStmt>(S->getThen()) && noMacroInside(S->getThen()) && !isa<NullStmt>(S->getThen()))
            add("brace", S, S->getIfLoc());
        return true;
    }
    bool VisitForStmt(ForStmt* S) {
        if (!Cur || !plain(S->getSourceRange()) || S->getConditionVariable()) return true;
        if (!isa<CompoundStmt>(S->getBody()) || hasOwnContinue(S->getBody())) return true;
        if (!noMacroInside(S->getInit()) || !noMacroInside(S->getCond()) || !noMacroInside(S->getInc()) || !noMacroInside(S->getBody())) return true;
        const Stmt* P = parentStmt(S);
        if (P && (isa<CompoundStmt>(P))) add("for2while", S, S->getForLoc());
        // hoist a loop-invariant bound: `i < a.count` with a body that contains no call and no store through a member / pointer
        if (P && isa<CompoundStmt>(P) && S->getCond()) {
            if (auto* B = dyn_cast<BinaryOperator>(S->getCond()->IgnoreParenImpCasts())) {
                const Expr* R = B->getRHS()->IgnoreParenImpCasts();
                if (B->isRelationalOp() && isa<MemberExpr>(R) && R->getType()->isIntegerType() && !R->getType().isVolatileQualified() && bodyIsQuiet(S->getBody()) && bodyIsQuiet(S->getInc()))
                    add("hoist", S, S->getForLoc());
            }
        }
        return true;
    }
    bool VisitWhileStmt(WhileStmt* S) {
        if (!Cur || !plain(S->getSourceRange()) || S->getConditionVariable() || !noMacroInside(S->getCond())) return true;
        add("while2for", S, S->getWhileLoc());
        return true;
    }
    bool VisitCompoundAssignOperator(CompoundAssignOperator* S) {
        if (!Cur || !plain(S->getSourceRange()) || !noMacroInside(S)) return true;
        auto op = S->getOpcode();
        if (op != BO_AddAssign && op != BO_SubAssign && op != BO_MulAssign) return true;
        if (!simpleLvalue(S->getLHS()) || S->getLHS()->getType().isVolatileQualified()) return true;
        if (!S->getLHS()->getType()->isArithmeticType() && !S->getLHS()->getType()->isPointerType()) return true;
        if (S->getLHS()->getType()->isPointerType() && op == BO_MulAssign) return true;
        const Stmt* P = parentStmt(S);
        if (P && isa<CompoundStmt>(P)) add("expand", S, S->getOperatorLoc());
        return true;
    }
    bool VisitUnaryOperator(UnaryOperator* S) {
        if (!Cur || !plain(S->getSourceRange()) || !noMacroInside(S)) return true;
        if (S->getOpcode() != UO_PostInc && S->getOpcode() != UO_PostDec) return true;
        if (!S->getSubExpr()->getType()->isScalarType()) return true;
        const Stmt* P = parentStmt(S);
        if (P && isa<CompoundStmt>(P)) add("preinc", S, S->getOperatorLoc());
        return true;
    }
    bool VisitBinaryOperator(BinaryOperator* S) {
        if (!Cur || !plain(S->getSourceRange()) || !noMacroInside(S)) return true;
        if (S->getLHS()->HasSideEffects(Ctx) || S->getRHS()->HasSideEffects(Ctx)) return true;
        if (S->getOpcode() == BO_EQ || S->getOpcode() == BO_NE) add("commute", S, S->getOperatorLoc());
        if (S->getOpcode() == BO_LT || S->getOpcode() == BO_GT || S->getOpcode() == BO_LE || S->getOpcode() == BO_GE) add("flipcmp", S, S->getOperatorLoc());
        return true;
    }
    bool VisitDeclStmt(DeclStmt* S) {
        if (!Cur || !plain(S->getSourceRange()) || !S->isSingleDecl()) return true;
        auto* D = dyn_cast<VarDecl>(S->getSingleDecl());
        if (!D || !D->hasInit() || D->getInitStyle() != VarDecl::CInit || D->isStaticLocal()) return true;
        QualType T = D->getType();
        if (T.isConstQualified() || T->isReferenceType() || !(T->isArithmeticType() || T->isPointerType()) || T->getContainedAutoType()) return true;
        if (!noMacroInside(D->getInit()) || D->getLocation().isMacroID()) return true;
        const Stmt* P = parentStmt(S);
        if (!P || !isa<CompoundStmt>(P)) return true;
        // the type must be spelled as `T name = init` with the name directly after the type (no function pointers / arrays)
        if (T->isFunctionPointerType()) return true;
        if (auto* PT = T->getAs<PointerType>())
            if (PT->getPointeeType().isConstQualified() && false) return true;
        add("declsplit", S, S->getBeginLoc(), D);
        return true;
    }
};

std::string text(SourceManager& SM, const LangOptions& LO, SourceRange R) {
    return Lexer::getSourceText(CharSourceRange::getTokenRange(R), SM, LO).str();
}

struct Collector : public RecursiveASTVisitor<Collector> {
    const VarDecl* D;
    std::vector<SourceLocation> Uses;
    std::set<std::string> Names;
    bool Bad = false;
    bool VisitDeclRefExpr(DeclRefExpr* E) {
        if (E->getDecl() == D) {
            if (E->getLocation().isMacroID()) Bad = true;
            Uses.push_back(E->getLocation());
        }
        Names.insert(E->getDecl()->getNameAsString());
        return true;
    }
    bool VisitVarDecl(VarDecl* V) {
        Names.insert(V->getNameAsString());
        return true;
    }
    bool VisitMemberExpr(MemberExpr* M) {
        Names.insert(M->getMemberDecl()->getNameAsString());
        return true;
    }
    bool VisitLambdaExpr(LambdaExpr*) {
        Bad = true;
        return true;
    }
};

bool applySite(ASTContext& Ctx, Rewriter& RW, const Site& s, int id) {
    SourceManager& SM = Ctx.getSourceManager();
    const LangOptions& LO = Ctx.getLangOpts();
    auto T = [&](SourceRange R) { return text(SM, LO, R); };
    if (s.kind == "rename") {
        Collector C;
        C.D = s.V;
        C.TraverseDecl(const_cast<FunctionDecl*>(s.F));
        std::string nn = s.V->getNameAsString() + "_gm";
        if (C.Bad || C.Names.count(nn) || s.V->getLocation().isMacroID()) return false;
        {
            // the name must not occur in code that this configuration does not see (arguments of disabled macros such as
            // DEBUG_PRINT): every whole-word occurrence in the function text has to be the declaration or a resolved use
            std::string body = T(s.F->getSourceRange());
            std::string nm = s.V->getNameAsString();
            size_t count = 0, pos = 0;
            auto idch = [](char c) { return isalnum((unsigned char)c) || c == '_'; };
            while ((pos = body.find(nm, pos)) != std::string::npos) {
                bool l = pos == 0 || !idch(body[pos - 1]);
                bool r = pos + nm.size() >= body.size() || !idch(body[pos + nm.size()]);
                if (l && r) count++;
                pos += nm.size();
            }
            if (count != C.Uses.size() + 1) return false;
        }
        for (auto* P : s.F->parameters())
            if (P->getNameAsString() == nn) return false;
        RW.ReplaceText(s.V->getLocation(), s.V->getName().size(), nn);
        for (auto L : C.Uses) RW.ReplaceText(L, s.V->getName().size(), nn);
        return true;
    }
    if (s.kind == "ifswap") {
        auto* I = cast<IfStmt>(s.S);
        std::string c = T(I->getCond()->getSourceRange()), a = T(I->getThen()->getSourceRange()), b = T(I->getElse()->getSourceRange());
        RW.ReplaceText(I->getCond()->getSourceRange(), "!(" + c + ")");
        RW.ReplaceText(I->getThen()->getSourceRange(), b);
        RW.ReplaceText(I->getElse()->getSourceRange(), a);
        return true;
    }
    if (s.kind == "for2while") {
        auto* F = cast<ForStmt>(s.S);
        std::string init = F->getInit() ? T(F->getInit()->getSourceRange()) : "";
        if (F->getInit() && !isa<DeclStmt>(F->getInit())) init += ";";
        if (F->getInit() && isa<DeclStmt>(F->getInit()) && (init.empty() || init.back() != ';')) init += ";";
        std::string cond = F->getCond() ? T(F->getCond()->getSourceRange()) : "true";
        std::string inc = F->getInc() ? T(F->getInc()->getSourceRange()) + ";" : "";
        auto* B = cast<CompoundStmt>(F->getBody());
        std::string body = T(B->getSourceRange());
        if (body.size() < 2) return false;
        std::string inner = body.substr(1, body.size() - 2);
        std::string out = "{ " + init + " while (" + cond + ") {" + inner + " " + inc + " } }";
        RW.ReplaceText(F->getSourceRange(), out);
        return true;
    }
    if (s.kind == "while2for") {
        auto* W = cast<WhileStmt>(s.S);
        std::string c = T(W->getCond()->getSourceRange());
        RW.ReplaceText(SourceRange(W->getWhileLoc(), W->getRParenLoc()), "for (; " + c + ";)");
        return true;
    }
    if (s.kind == "condtemp") {
        auto* I = cast<IfStmt>(s.S);
        std::string c = T(I->getCond()->getSourceRange());
        std::string nm = "gm_cond_" + std::to_string(id);
        RW.ReplaceText(I->getCond()->getSourceRange(), nm);
        RW.InsertTextBefore(I->getIfLoc(), "const bool " + nm + " = (" + c + ");\n");
        return true;
    }
    if (s.kind == "expand") {
        auto* A = cast<CompoundAssignOperator>(s.S);
        std::string l = T(A->getLHS()->getSourceRange()), r = T(A->getRHS()->getSourceRange());
        const char* op = A->getOpcode() == BO_AddAssign ? "+" : A->getOpcode() == BO_SubAssign ? "-" : "*";
        RW.ReplaceText(A->getSourceRange(), l + " = " + l + " " + op + " (" + r + ")");
        return true;
    }
    if (s.kind == "preinc") {
        auto* U = cast<UnaryOperator>(s.S);
        std::string e = T(U->getSubExpr()->getSourceRange());
        RW.ReplaceText(U->getSourceRange(), std::string(U->getOpcode() == UO_PostInc ? "++" : "--") + e);
        return true;
    }
    if (s.kind == "commute") {
        auto* B = cast<BinaryOperator>(s.S);
        std::string l = T(B->getLHS()->getSourceRange()), r = T(B->getRHS()->getSourceRange());
        RW.ReplaceText(B->getSourceRange(), "(" + r + ") " + (B->getOpcode() == BO_EQ ? "==" : "!=") + " (" + l + ")");
        return true;
    }
    if (s.kind == "flipcmp") {
        auto* B = cast<BinaryOperator>(s.S);
        std::string l = T(B->getLHS()->getSourceRange()), r = T(B->getRHS()->getSourceRange());
        const char* op = B->getOpcode() == BO_LT ? ">" : B->getOpcode() == BO_GT ? "<" : B->getOpcode() == BO_LE ? ">=" : "<=";
        RW.ReplaceText(B->getSourceRange(), "(" + r + ") " + op + " (" + l + ")");
        return true;
    }
    if (s.kind == "earlyret") {
        auto* I = cast<IfStmt>(s.S);
        std::string c = T(I->getCond()->getSourceRange());
        std::string body = T(I->getThen()->getSourceRange());
        if (body.size() < 2) return false;
        std::string inner = body.substr(1, body.size() - 2);
        RW.ReplaceText(I->getSourceRange(), "if (!(" + c + ")) return;" + inner);
        return true;
    }
    if (s.kind == "hoist") {
        auto* F = cast<ForStmt>(s.S);
        const Expr* R = nullptr;
        if (auto* B = dyn_cast<BinaryOperator>(F->getCond()->IgnoreParenImpCasts())) R = B->getRHS();
        if (!R) return false;
        std::string r = T(R->getSourceRange());
        std::string ty = R->getType().getUnqualifiedType().getAsString(Ctx.getPrintingPolicy());
        std::string nm = "gm_bound_" + std::to_string(id);
        RW.ReplaceText(R->getSourceRange(), nm);
        RW.InsertTextBefore(F->getForLoc(), "const " + ty + " " + nm + " = " + r + ";\n");
        return true;
    }
    if (s.kind == "brace") {
        auto* I = cast<IfStmt>(s.S);
        const Stmt* Th = I->getThen();
        SourceLocation end = Lexer::findLocationAfterToken(Th->getEndLoc(), tok::semi, SM, LO, false);
        if (end.isInvalid()) {
            // the statement's own range may already end at the semicolon
            std::string t = T(Th->getSourceRange());
            if (t.empty() || t.back() != ';') return false;
            end = Lexer::getLocForEndOfToken(Th->getEndLoc(), 0, SM, LO);
        }
        RW.InsertTextBefore(Th->getBeginLoc(), "{ ");
        RW.InsertTextAfter(end, " }");
        return true;
    }
    if (s.kind == "declsplit") {
        auto* DS = cast<DeclStmt>(s.S);
        const VarDecl* D = s.V;
        std::string whole = T(DS->getSourceRange());
        std::string init = T(D->getInit()->getSourceRange());
        std::string name = D->getNameAsString();
        // type text: from the start of the statement to the name
        SourceLocation b = DS->getBeginLoc(), n = D->getLocation();
        std::string ty = Lexer::getSourceText(CharSourceRange::getCharRange(b, n), SM, LO).str();
        if (ty.empty() || whole.find('=') == std::string::npos) return false;
        RW.ReplaceText(DS->getSourceRange(), ty + name + "; " + name + " = " + init + ";");
        return true;
    }
    return false;
}

class Consumer : public ASTConsumer {
   public:
    CompilerInstance& CI;
    Consumer(CompilerInstance& C) : CI(C) {}
    void HandleTranslationUnit(ASTContext& Ctx) override {
        if (Ctx.getDiagnostics().hasErrorOccurred()) return;
        V v(Ctx);
        v.TraverseDecl(Ctx.getTranslationUnitDecl());
        SourceManager& SM = Ctx.getSourceManager();
        if (List) {
            int id = 0;
            for (auto& s : v.Sites) {
                PresumedLoc P = SM.getPresumedLoc(SM.getSpellingLoc(s.Loc));
                llvm::outs() << "{\"id\":" << id << ",\"kind\":\"" << s.kind << "\",\"file\":\"" << (P.isValid() ? P.getFilename() : "?") << "\",\"line\":"
                             << (P.isValid() ? P.getLine() : 0) << ",\"func\":\"" << (s.F ? s.F->getQualifiedNameAsString() : "") << "\"}\n";
                id++;
            }
            return;
        }
        if (Apply >= 0 && Apply < (int)v.Sites.size()) {
            Rewriter RW(SM, Ctx.getLangOpts());
            const Site& s = v.Sites[Apply];
            if (!applySite(Ctx, RW, s, Apply)) {
                llvm::errs() << "gm: site not applicable\n";
                return;
            }
            FileID F = SM.getFileID(SM.getSpellingLoc(s.Loc));
            const RewriteBuffer* B = RW.getRewriteBufferFor(F);
            if (!B) {
                llvm::errs() << "gm: nothing rewritten\n";
                return;
            }
            std::error_code EC;
            llvm::raw_fd_ostream OS(Out, EC);
            if (EC) return;
            OS << std::string(B->begin(), B->end());
            PresumedLoc P = SM.getPresumedLoc(SM.getSpellingLoc(s.Loc));
            llvm::outs() << (P.isValid() ? P.getFilename() : "?") << "\n";
        }
    }
};

class Action : public ASTFrontendAction {
   public:
    std::unique_ptr<ASTConsumer> CreateASTConsumer(CompilerInstance& CI, StringRef) override { return std::make_unique<Consumer>(CI); }
};

}  // namespace

int main(int argc, const char** argv) {
    auto Opt = CommonOptionsParser::create(argc, argv, Cat);
    if (!Opt) {
        llvm::errs() << llvm::toString(Opt.takeError()) << "\n";
        return 2;
    }
    ClangTool Tool(Opt->getCompilations(), Opt->getSourcePathList());
    return Tool.run(newFrontendActionFactory<Action>().get()) ? 2 : 0;
}
