#!/bin/bash
# tools/gm_run.sh <seed> <per> <max> <out-json>   generate synthetic behaviour-preserving variants and run every check on them
cd "$(dirname "$0")/.."
make -s build/gx build/gm || exit 2
D=$(mktemp -d /tmp/gdstk-gm.XXXXXX)
python3 tools/gm_sweep.py --per $2 --max $3 --seed $1 --out $D
python3 tools/patch_matrix.py -j 15 --json $4 $D/* > $4.log 2>&1
mkdir -p build/gm_keep; for d in $(python3 -c "
import json,sys
for r in json.load(open('$4')):
    if r.get('rules') or r.get('error'): print(r['patch'])"); do cp -r $D/$d build/gm_keep/ 2>/dev/null; done
rm -rf $D
python3 - <<PY
import json
R=json.load(open('$4'))
print(len(R),'variants; silent', sum(1 for r in R if not r.get('rules') and not r.get('error')), 'errors', sum(1 for r in R if r.get('error')))
PY
