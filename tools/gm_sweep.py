#!/usr/bin/env python3
"""tools/gm_sweep.py [--per N] [--max M] [--seed S] [--kinds k1,k2] [--out DIR]      (development aid / thorough-tier control)
Generates behaviour-preserving rewrites of the current /repo sources with build/gm (semantics preserving by
construction: rename a local, swap if/else under negation, for<->while, name a condition, expand `op=`, pre-increment,
commute ==, add braces, split declaration and initialisation), one rewrite per variant, as unified diffs under DIR
(default: a fresh directory under /tmp, removed by the caller), stratified over (function, kind).
Then `tools/patch_matrix.py DIR/*` shows which rule reports an alarm on code whose behaviour is unchanged."""
import argparse
import collections
import json
import os
import random
import subprocess
import sys
import tempfile
from concurrent.futures import ThreadPoolExecutor

HERE = os.path.dirname(os.path.dirname(os.path.abspath(__file__)))
REPO = os.environ.get('GDSTK_REPO', '/repo')
GM = os.path.join(HERE, 'build', 'gm')


def flags(repo):
    return ['-std=c++17', '-DNDEBUG', '-I%s/include' % repo, '-I%s/external' % repo, '-Wno-everything']


def list_sites(unit):
    p = subprocess.run([GM, '--list', '--root', REPO + '/src', '--root', REPO + '/include', unit, '--'] + flags(REPO), stdout=subprocess.PIPE, stderr=subprocess.PIPE, text=True)
    out = []
    for l in p.stdout.splitlines():
        try:
            j = json.loads(l)
        except ValueError:
            continue
        j['unit'] = unit
        out.append(j)
    return out


def make_patch(site, outdir, idx):
    d = os.path.join(outdir, 'gm%05d-%s' % (idx, site['kind']))
    os.makedirs(d, exist_ok=True)
    tmp = os.path.join(d, 'new.txt')
    p = subprocess.run([GM, '--apply', str(site['id']), '--out', tmp, '--root', REPO + '/src', '--root', REPO + '/include', site['unit'], '--'] + flags(REPO),
                       stdout=subprocess.PIPE, stderr=subprocess.PIPE, text=True)
    f = p.stdout.strip().splitlines()[-1] if p.stdout.strip() else None
    if p.returncode != 0 or not f or not os.path.exists(tmp):
        subprocess.run(['rm', '-rf', d])
        return None
    rel = os.path.relpath(f, REPO)
    q = subprocess.run(['diff', '-u', '--label', 'a/' + rel, '--label', 'b/' + rel, f, tmp], stdout=subprocess.PIPE, text=True)
    os.remove(tmp)
    if not q.stdout.strip():
        subprocess.run(['rm', '-rf', d])
        return None
    with open(os.path.join(d, 'patch.diff'), 'w') as fh:
        fh.write(q.stdout)
    json.dump({'kind': site['kind'], 'file': rel, 'line': site['line'], 'func': site['func']}, open(os.path.join(d, 'site.json'), 'w'))
    return d


def main():
    ap = argparse.ArgumentParser()
    ap.add_argument('--per', type=int, default=1, help='variants per (function, kind)')
    ap.add_argument('--max', type=int, default=400)
    ap.add_argument('--seed', type=int, default=1)
    ap.add_argument('--kinds', default='')
    ap.add_argument('--funcs', default='', help='comma separated substrings of qualified function names')
    ap.add_argument('--out', default=None)
    a = ap.parse_args()
    if not os.path.exists(GM):
        subprocess.check_call(['make', '-s', '-C', HERE, 'build/gm'])
    units = sorted(os.path.join(REPO, 'src', f) for f in os.listdir(os.path.join(REPO, 'src')) if f.endswith('.cpp'))
    with ThreadPoolExecutor(16) as ex:
        allsites = [s for ss in ex.map(list_sites, units) for s in ss]
    seen = set()
    sites = []
    for s in allsites:
        k = (s['file'], s['line'], s['kind'], s['func'])
        if k in seen:
            continue
        seen.add(k)
        sites.append(s)
    if a.kinds:
        sites = [s for s in sites if s['kind'] in a.kinds.split(',')]
    if a.funcs:
        sites = [s for s in sites if any(x in s['func'] for x in a.funcs.split(','))]
    rnd = random.Random(a.seed)
    groups = collections.defaultdict(list)
    for s in sites:
        groups[(s['func'], s['kind'])].append(s)
    pick = []
    for k in sorted(groups):
        g = groups[k]
        rnd.shuffle(g)
        pick += g[:a.per]
    rnd.shuffle(pick)
    pick = pick[:a.max]
    out = a.out or tempfile.mkdtemp(prefix='gdstk-gm.')
    os.makedirs(out, exist_ok=True)
    with ThreadPoolExecutor(16) as ex:
        made = [d for d in ex.map(lambda t: make_patch(t[1], out, t[0]), enumerate(pick)) if d]
    print(json.dumps({'sites_total': len(sites), 'groups': len(groups), 'picked': len(pick), 'patches': len(made), 'dir': out}))


if __name__ == '__main__':
    main()
