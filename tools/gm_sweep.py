#!/usr/bin/env python3
"""tools/gm_sweep.py [--per N] [--max M] [--seed S] [--kinds k1,k2] [--funcs f1,f2] [--out DIR]      (development aid)
Generates behaviour-preserving rewrites of the current /repo sources with build/gm (semantics preserving by
construction, see tools/gm/gm.cc), one rewrite per variant, as unified diffs under DIR, stratified over (function, kind).
Then `tools/patch_matrix.py DIR/*` shows which rule reports an alarm on code whose behaviour is unchanged."""
import argparse
import collections
import json
import os
import random
import sys
import tempfile
from concurrent.futures import ThreadPoolExecutor

HERE = os.path.dirname(os.path.dirname(os.path.abspath(__file__)))
sys.path.insert(0, HERE)
from sa import gmctl, facts


def main():
    ap = argparse.ArgumentParser()
    ap.add_argument('--per', type=int, default=1, help='variants per (function, kind)')
    ap.add_argument('--max', type=int, default=400)
    ap.add_argument('--seed', type=int, default=1)
    ap.add_argument('--kinds', default='')
    ap.add_argument('--funcs', default='', help='comma separated substrings of qualified function names')
    ap.add_argument('--out', default=None)
    a = ap.parse_args()
    gmctl.ensure()
    repo = facts.REPO
    sites = gmctl.all_sites(repo)
    if a.kinds:
        sites = [s for s in sites if s['kind'] in a.kinds.split(',')]
    if a.funcs:
        sites = [s for s in sites if any(x in s['func'] for x in a.funcs.split(','))]
    rnd = random.Random(a.seed)
    groups = collections.defaultdict(list)
    for s in sites:
        groups[(s['func'], s['kind'])].append(s)
    pick = []
    for k in sorted(groups):
        g = groups[k]
        rnd.shuffle(g)
        pick += g[:a.per]
    rnd.shuffle(pick)
    pick = pick[:a.max]
    out = a.out or tempfile.mkdtemp(prefix='gdstk-gm.')
    os.makedirs(out, exist_ok=True)
    with ThreadPoolExecutor(16) as ex:
        made = [d for d in ex.map(lambda t: gmctl.make_patch(t[1], repo, out, t[0]), enumerate(pick)) if d]
    print(json.dumps({'sites_total': len(sites), 'groups': len(groups), 'picked': len(pick), 'patches': len(made), 'dir': out}))


if __name__ == '__main__':
    main()
