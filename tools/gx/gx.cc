// gx — fact extractor for the gdstk static checks (libTooling, clang 14).
// For every function definition spelled under one of the --root prefixes it writes a typed
// mini-AST and the clang CFG (setAllAlwaysAdd) as JSON; plus record layouts and enums.
// One output file per translation unit: <outdir>/<basename>.json
//
// Usage: gx --out DIR --root /repo/src --root /repo/include file.cpp -- <compile flags>
#include "clang/AST/ASTConsumer.h"
#include "clang/AST/ASTContext.h"
#include "clang/AST/RecursiveASTVisitor.h"
#include "clang/AST/ParentMapContext.h"
#include "clang/AST/RecordLayout.h"
#include "clang/Analysis/CFG.h"
#include "clang/Frontend/CompilerInstance.h"
#include "clang/Frontend/FrontendAction.h"
#include "clang/Tooling/CommonOptionsParser.h"
#include "clang/Tooling/Tooling.h"
#include "llvm/Support/CommandLine.h"
#include "llvm/Support/JSON.h"
#include "llvm/Support/raw_ostream.h"
#include "llvm/Support/FileSystem.h"
#include "llvm/Support/Path.h"
#include <map>
#include <set>
#include <string>

using namespace clang;
using namespace clang::tooling;
namespace json = llvm::json;

static llvm::cl::OptionCategory Cat("gx options");
static llvm::cl::opt<std::string> OutDir("out", llvm::cl::desc("output directory"),
                                         llvm::cl::Required, llvm::cl::cat(Cat));
static llvm::cl::list<std::string> Roots("root", llvm::cl::desc("path prefix of analysed sources"),
                                         llvm::cl::cat(Cat));

namespace {

struct Emitter {
    ASTContext& Ctx;
    SourceManager& SM;
    PrintingPolicy PP;
    std::map<const Decl*, int> declIds;
    int nextDecl = 1;
    // per function
    std::map<const Stmt*, int> stmtIds;
    int nextStmt = 1;

    Emitter(ASTContext& C) : Ctx(C), SM(C.getSourceManager()), PP(C.getLangOpts()) {
        PP.SuppressTagKeyword = true;
        PP.Bool = true;
        PP.SuppressUnwrittenScope = true;
    }

    int declId(const Decl* D) {
        D = D->getCanonicalDecl();
        auto it = declIds.find(D);
        if (it != declIds.end()) return it->second;
        return declIds[D] = nextDecl++;
    }

    std::string fileOf(SourceLocation L) {
        if (L.isInvalid()) return "";
        return SM.getFilename(SM.getExpansionLoc(L)).str();
    }
    unsigned lineOf(SourceLocation L) {
        if (L.isInvalid()) return 0;
        return SM.getExpansionLineNumber(L);
    }
    unsigned colOf(SourceLocation L) {
        if (L.isInvalid()) return 0;
        return SM.getExpansionColumnNumber(L);
    }
    bool underRoot(const std::string& f) {
        if (f.empty()) return false;
        llvm::SmallString<256> p(f);
        llvm::sys::fs::make_absolute(p);
        llvm::sys::path::remove_dots(p, true);
        std::string s = p.str().str();
        for (auto& r : Roots)
            if (s.compare(0, r.size(), r) == 0) return true;
        return false;
    }
    std::string absPath(const std::string& f) {
        llvm::SmallString<256> p(f);
        llvm::sys::fs::make_absolute(p);
        llvm::sys::path::remove_dots(p, true);
        return p.str().str();
    }

    std::string ty(QualType T) { return T.isNull() ? "" : T.getAsString(PP); }
    std::string cty(QualType T) {
        return T.isNull() ? "" : T.getCanonicalType().getAsString(PP);
    }

    static bool trivialCast(CastKind K) {
        switch (K) {
            case CK_LValueToRValue:
            case CK_NoOp:
            case CK_ArrayToPointerDecay:
            case CK_FunctionToPointerDecay:
            case CK_NullToPointer:
            case CK_BuiltinFnToFnPtr:
                return true;
            default:
                return false;
        }
    }

    // Strip wrappers that carry no semantics for the rules.
    const Stmt* strip(const Stmt* S) {
        while (S) {
            if (auto* P = dyn_cast<ParenExpr>(S)) { S = P->getSubExpr(); continue; }
            if (auto* P = dyn_cast<ExprWithCleanups>(S)) { S = P->getSubExpr(); continue; }
            if (auto* P = dyn_cast<MaterializeTemporaryExpr>(S)) { S = P->getSubExpr(); continue; }
            if (auto* P = dyn_cast<CXXBindTemporaryExpr>(S)) { S = P->getSubExpr(); continue; }
            if (auto* P = dyn_cast<ConstantExpr>(S)) { S = P->getSubExpr(); continue; }
            if (auto* P = dyn_cast<SubstNonTypeTemplateParmExpr>(S)) { S = P->getReplacement(); continue; }
            if (auto* P = dyn_cast<CXXDefaultArgExpr>(S)) { S = P->getExpr(); continue; }
            if (auto* P = dyn_cast<CXXDefaultInitExpr>(S)) { S = P->getExpr(); continue; }
            if (auto* P = dyn_cast<ImplicitCastExpr>(S)) {
                if (trivialCast(P->getCastKind())) { S = P->getSubExpr(); continue; }
            }
            break;
        }
        return S;
    }

    void declInfo(json::Object& O, const ValueDecl* D) {
        O["d"] = declId(D);
        if (D->getDeclName().isIdentifier()) O["n"] = D->getName().str();
        else O["n"] = D->getNameAsString();
        if (auto* V = dyn_cast<VarDecl>(D)) {
            if (isa<ParmVarDecl>(V)) O["dk"] = "param";
            else if (V->isLocalVarDecl()) O["dk"] = V->isStaticLocal() ? "static" : "local";
            else { O["dk"] = "global"; O["qn"] = V->getQualifiedNameAsString(); }
        } else if (auto* F = dyn_cast<FieldDecl>(D)) {
            O["dk"] = "field";
            O["rec"] = recName(F->getParent());
        } else if (auto* E = dyn_cast<EnumConstantDecl>(D)) {
            O["dk"] = "enum";
            O["qn"] = E->getQualifiedNameAsString();
            O["cv"] = (int64_t)E->getInitVal().getExtValue();
        } else if (auto* F = dyn_cast<FunctionDecl>(D)) {
            O["dk"] = "func";
            O["qn"] = F->getQualifiedNameAsString();
        } else if (isa<IndirectFieldDecl>(D)) {
            O["dk"] = "field";
        } else {
            O["dk"] = "other";
        }
    }

    std::string recName(const RecordDecl* R) {
        // Walk out of anonymous structs/unions to the named owner.
        const DeclContext* DC = R;
        while (auto* RR = dyn_cast<RecordDecl>(DC)) {
            if (!RR->isAnonymousStructOrUnion() && RR->getIdentifier()) break;
            if (!RR->getParent()) break;
            if (!isa<RecordDecl>(RR->getParent())) break;
            DC = RR->getParent();
        }
        auto* RR = cast<RecordDecl>(DC);
        return RR->getQualifiedNameAsString();
    }

    std::string calleeName(const FunctionDecl* F) {
        if (!F) return "";
        return F->getQualifiedNameAsString();
    }

    json::Value emit(const Stmt* S0) {
        if (!S0) return nullptr;
        const Stmt* S = strip(S0);
        if (!S) return nullptr;
        json::Object O;
        int id = nextStmt++;
        // map every wrapper on the way to this id
        {
            const Stmt* W = S0;
            while (W && W != S) {
                stmtIds[W] = id;
                const Stmt* N = nullptr;
                if (auto* P = dyn_cast<ParenExpr>(W)) N = P->getSubExpr();
                else if (auto* P = dyn_cast<ExprWithCleanups>(W)) N = P->getSubExpr();
                else if (auto* P = dyn_cast<MaterializeTemporaryExpr>(W)) N = P->getSubExpr();
                else if (auto* P = dyn_cast<CXXBindTemporaryExpr>(W)) N = P->getSubExpr();
                else if (auto* P = dyn_cast<ConstantExpr>(W)) N = P->getSubExpr();
                else if (auto* P = dyn_cast<SubstNonTypeTemplateParmExpr>(W)) N = P->getReplacement();
                else if (auto* P = dyn_cast<CXXDefaultArgExpr>(W)) N = P->getExpr();
                else if (auto* P = dyn_cast<CXXDefaultInitExpr>(W)) N = P->getExpr();
                else if (auto* P = dyn_cast<ImplicitCastExpr>(W)) N = P->getSubExpr();
                W = N;
            }
            stmtIds[S] = id;
        }
        O["id"] = id;
        O["k"] = S->getStmtClassName();
        O["l"] = (int64_t)lineOf(S->getBeginLoc());
        O["co"] = (int64_t)colOf(S->getBeginLoc());

        json::Array C;
        json::Array RL;
        auto child = [&](const char* role, const Stmt* X) {
            C.push_back(emit(X));
            RL.push_back(role);
        };

        if (auto* E = dyn_cast<Expr>(S)) {
            O["t"] = ty(E->getType());
            std::string c = cty(E->getType());
            if (c != ty(E->getType())) O["ct"] = c;
            if (!E->isValueDependent() && !E->isTypeDependent() && !E->getType().isNull()) {
                if (E->getType()->isIntegralOrEnumerationType()) {
                    Expr::EvalResult R;
                    if (E->EvaluateAsInt(R, Ctx, Expr::SE_NoSideEffects) && R.Val.isInt()) {
                        llvm::APSInt V = R.Val.getInt();
                        if (V.isSigned() || V.getActiveBits() <= 63) O["cv"] = (int64_t)V.getExtValue();
                        else O["cvu"] = std::to_string(V.getZExtValue());
                    }
                } else if (E->getType()->isRealFloatingType() && !isa<FloatingLiteral>(E)) {
                    llvm::APFloat F(0.0);
                    if (E->EvaluateAsFloat(F, Ctx, Expr::SE_NoSideEffects)) {
                        bool lose;
                        F.convert(llvm::APFloat::IEEEdouble(), llvm::APFloat::rmNearestTiesToEven, &lose);
                        double dv = F.convertToDouble();
                        if (std::isfinite(dv)) O["fv"] = dv;
                    }
                }
            }
        }

        if (auto* D = dyn_cast<DeclRefExpr>(S)) {
            declInfo(O, D->getDecl());
        } else if (auto* M = dyn_cast<MemberExpr>(S)) {
            declInfo(O, M->getMemberDecl());
            O["arrow"] = M->isArrow();
            child("base", M->getBase());
        } else if (auto* CE = dyn_cast<CallExpr>(S)) {
            const FunctionDecl* F = CE->getDirectCallee();
            if (F) {
                O["callee"] = calleeName(F);
                O["cd"] = declId(F);
                if (auto* MD = dyn_cast<CXXMethodDecl>(F)) {
                    O["crec"] = ty(Ctx.getRecordType(MD->getParent()));
                }
            }
            if (auto* OC = dyn_cast<CXXOperatorCallExpr>(S)) {
                O["op"] = getOperatorSpelling(OC->getOperator());
            }
            if (auto* MC = dyn_cast<CXXMemberCallExpr>(S)) {
                // children: object, args
                child("obj", MC->getImplicitObjectArgument());
                if (auto* ME = dyn_cast<MemberExpr>(strip(MC->getCallee()))) O["arrow"] = ME->isArrow();
            } else {
                child("fn", CE->getCallee());
            }
            for (const Expr* A : CE->arguments()) child("arg", A);
            if (F) {
                // arguments bound to a non-const lvalue reference parameter: the callee may write the caller's object
                json::Array mut;
                unsigned off = (isa<CXXOperatorCallExpr>(S) && isa<CXXMethodDecl>(F)) ? 1 : 0;
                for (unsigned i = 0; i < F->getNumParams() && i + off < CE->getNumArgs(); i++) {
                    QualType T = F->getParamDecl(i)->getType();
                    if (T->isLValueReferenceType() && !T.getNonReferenceType().isConstQualified()) mut.push_back((int64_t)(i + off));
                }
                if (!mut.empty()) O["mutargs"] = std::move(mut);
            }
        } else if (auto* B = dyn_cast<BinaryOperator>(S)) {
            O["op"] = B->getOpcodeStr().str();
            child("lhs", B->getLHS());
            child("rhs", B->getRHS());
        } else if (auto* U = dyn_cast<UnaryOperator>(S)) {
            std::string op = UnaryOperator::getOpcodeStr(U->getOpcode()).str();
            if (U->isPostfix()) op = "post" + op;
            O["op"] = op;
            child("sub", U->getSubExpr());
        } else if (auto* IL = dyn_cast<IntegerLiteral>(S)) {
            (void)IL;
        } else if (auto* FL = dyn_cast<FloatingLiteral>(S)) {
            O["fv"] = FL->getValueAsApproximateDouble();
        } else if (auto* SL = dyn_cast<StringLiteral>(S)) {
            if (SL->isAscii() || SL->isUTF8()) {
                std::string b = SL->getBytes().str();
                if (json::isUTF8(b)) O["v"] = b;
                else O["v"] = json::fixUTF8(b);
                O["vlen"] = (int64_t)b.size();
            }
        } else if (auto* BL = dyn_cast<CXXBoolLiteralExpr>(S)) {
            O["v"] = BL->getValue();
        } else if (auto* CL = dyn_cast<CharacterLiteral>(S)) {
            O["v"] = (int64_t)CL->getValue();
        } else if (auto* CA = dyn_cast<CastExpr>(S)) {
            O["cast"] = CA->getCastKindName();
            child("sub", CA->getSubExpr());
        } else if (auto* CO = dyn_cast<ConditionalOperator>(S)) {
            child("cond", CO->getCond());
            child("then", CO->getTrueExpr());
            child("else", CO->getFalseExpr());
        } else if (auto* AS = dyn_cast<ArraySubscriptExpr>(S)) {
            child("base", AS->getBase());
            child("idx", AS->getIdx());
        } else if (auto* UE = dyn_cast<UnaryExprOrTypeTraitExpr>(S)) {
            O["op"] = getTraitSpelling(UE->getKind());
            O["argt"] = ty(UE->getTypeOfArgument());
        } else if (auto* CC = dyn_cast<CXXConstructExpr>(S)) {
            O["ctor"] = ty(CC->getType());
            O["cd"] = declId(CC->getConstructor());
            for (const Expr* A : CC->arguments()) child("arg", A);
        } else if (auto* IL2 = dyn_cast<InitListExpr>(S)) {
            const InitListExpr* Sem = IL2->isSemanticForm() ? IL2 : (IL2->getSemanticForm() ? IL2->getSemanticForm() : IL2);
            for (const Expr* A : Sem->inits()) child("init", A);
            if (Sem->hasArrayFiller()) O["filler"] = true;
        } else if (auto* NE = dyn_cast<CXXNewExpr>(S)) {
            O["argt"] = ty(NE->getAllocatedType());
            if (NE->isArray() && NE->getArraySize()) child("size", *NE->getArraySize());
            if (NE->getInitializer()) child("init", NE->getInitializer());
        } else if (auto* DE = dyn_cast<CXXDeleteExpr>(S)) {
            child("sub", DE->getArgument());
        } else if (auto* LE = dyn_cast<LambdaExpr>(S)) {
            (void)LE;  // opaque
        } else if (auto* DS = dyn_cast<DeclStmt>(S)) {
            for (const Decl* D : DS->decls()) {
                if (auto* V = dyn_cast<VarDecl>(D)) {
                    json::Object VO;
                    int vid = nextStmt++;
                    VO["id"] = vid;
                    VO["k"] = "VarDecl";
                    VO["l"] = (int64_t)lineOf(V->getLocation());
                    VO["co"] = (int64_t)colOf(V->getLocation());
                    VO["t"] = ty(V->getType());
                    std::string c = cty(V->getType());
                    if (c != ty(V->getType())) VO["ct"] = c;
                    declInfo(VO, V);
                    json::Array VC, VR;
                    if (V->hasInit()) {
                        VC.push_back(emit(V->getInit()));
                        VR.push_back("init");
                    }
                    VO["c"] = std::move(VC);
                    VO["rl"] = std::move(VR);
                    C.push_back(std::move(VO));
                    RL.push_back("var");
                }
            }
        } else if (auto* IS = dyn_cast<IfStmt>(S)) {
            if (IS->getInit()) child("init", IS->getInit());
            if (IS->getConditionVariableDeclStmt()) child("condvar", IS->getConditionVariableDeclStmt());
            child("cond", IS->getCond());
            child("then", IS->getThen());
            child("else", IS->getElse());
        } else if (auto* FS = dyn_cast<ForStmt>(S)) {
            child("init", FS->getInit());
            child("cond", FS->getCond());
            child("inc", FS->getInc());
            child("body", FS->getBody());
        } else if (auto* WS = dyn_cast<WhileStmt>(S)) {
            child("cond", WS->getCond());
            child("body", WS->getBody());
        } else if (auto* DoS = dyn_cast<DoStmt>(S)) {
            child("body", DoS->getBody());
            child("cond", DoS->getCond());
        } else if (auto* SS = dyn_cast<SwitchStmt>(S)) {
            if (SS->getInit()) child("init", SS->getInit());
            child("cond", SS->getCond());
            child("body", SS->getBody());
        } else if (auto* CS = dyn_cast<CaseStmt>(S)) {
            child("lhs", CS->getLHS());
            if (CS->getRHS()) child("rhs", CS->getRHS());
            child("sub", CS->getSubStmt());
        } else if (auto* DfS = dyn_cast<DefaultStmt>(S)) {
            child("sub", DfS->getSubStmt());
        } else if (auto* RS = dyn_cast<ReturnStmt>(S)) {
            child("value", RS->getRetValue());
        } else if (auto* GS = dyn_cast<GotoStmt>(S)) {
            O["label"] = GS->getLabel()->getName().str();
        } else if (auto* LS = dyn_cast<LabelStmt>(S)) {
            O["label"] = LS->getDecl()->getName().str();
            child("sub", LS->getSubStmt());
        } else {
            for (const Stmt* X : S->children()) child("x", X);
        }
        O["c"] = std::move(C);
        O["rl"] = std::move(RL);
        return std::move(O);
    }

    int sid(const Stmt* S) {
        if (!S) return 0;
        auto it = stmtIds.find(S);
        if (it != stmtIds.end()) return it->second;
        const Stmt* T = strip(S);
        it = stmtIds.find(T);
        if (it != stmtIds.end()) return it->second;
        return 0;
    }

    json::Value emitCFG(const FunctionDecl* FD) {
        CFG::BuildOptions BO;
        BO.setAllAlwaysAdd();
        BO.AddImplicitDtors = false;
        BO.AddTemporaryDtors = false;
        BO.AddEHEdges = false;
        BO.AddInitializers = false;
        std::unique_ptr<CFG> G = CFG::buildCFG(FD, FD->getBody(), &Ctx, BO);
        if (!G) return nullptr;
        json::Object O;
        O["entry"] = (int64_t)G->getEntry().getBlockID();
        O["exit"] = (int64_t)G->getExit().getBlockID();
        json::Array Bs;
        for (const CFGBlock* B : *G) {
            json::Object BOj;
            BOj["id"] = (int64_t)B->getBlockID();
            json::Array Es;
            int last = -1;
            for (const CFGElement& E : *B) {
                if (auto CS = E.getAs<CFGStmt>()) {
                    const Stmt* S = CS->getStmt();
                    int i = sid(S);
                    if (i == 0) {
                        // VarDecl ids: DeclStmt maps to its own id
                        continue;
                    }
                    if (i == last) continue;
                    Es.push_back(i);
                    last = i;
                }
            }
            BOj["e"] = std::move(Es);
            if (const Stmt* T = B->getTerminatorStmt()) {
                BOj["t"] = sid(T);
                BOj["tk"] = T->getStmtClassName();
                if (const Stmt* TC = B->getTerminatorCondition()) BOj["tc"] = sid(TC);
            }
            if (const Stmt* L = B->getLabel()) BOj["lab"] = sid(L);
            json::Array Ss, Us;
            for (auto I = B->succ_begin(); I != B->succ_end(); ++I) {
                const CFGBlock* R = I->getReachableBlock();
                if (R) { Ss.push_back((int64_t)R->getBlockID()); Us.push_back(false); }
                else if (const CFGBlock* U = I->getPossiblyUnreachableBlock()) {
                    Ss.push_back((int64_t)U->getBlockID()); Us.push_back(true);
                } else { Ss.push_back(nullptr); Us.push_back(true); }
            }
            BOj["s"] = std::move(Ss);
            BOj["u"] = std::move(Us);
            if (B->hasNoReturnElement()) BOj["noret"] = true;
            Bs.push_back(std::move(BOj));
        }
        O["blocks"] = std::move(Bs);
        return std::move(O);
    }

    json::Value emitFunction(const FunctionDecl* FD) {
        stmtIds.clear();
        nextStmt = 1;
        json::Object O;
        O["qn"] = FD->getQualifiedNameAsString();
        O["name"] = FD->getNameAsString();
        O["d"] = declId(FD);
        O["file"] = absPath(fileOf(FD->getLocation()));
        O["line"] = (int64_t)lineOf(FD->getBeginLoc());
        O["endline"] = (int64_t)lineOf(FD->getEndLoc());
        O["ret"] = ty(FD->getReturnType());
        O["sig"] = ty(FD->getType());
        if (auto* MD = dyn_cast<CXXMethodDecl>(FD)) {
            O["rec"] = ty(Ctx.getRecordType(MD->getParent()));
            O["recqn"] = MD->getParent()->getQualifiedNameAsString();
            O["const"] = MD->isConst();
            O["static"] = MD->isStatic();
        }
        O["inst"] = FD->isTemplateInstantiation();
        if (FD->isTemplateInstantiation()) {
            if (auto* TA = FD->getTemplateSpecializationArgs()) {
                std::string s;
                llvm::raw_string_ostream os(s);
                for (unsigned i = 0; i < TA->size(); i++) {
                    if (i) os << ", ";
                    TA->get(i).print(PP, os, true);
                }
                O["targs"] = os.str();
            }
        }
        O["linkage"] = FD->isStatic() ? "static" : (FD->isInlined() ? "inline" : "extern");
        json::Array Ps;
        for (const ParmVarDecl* P : FD->parameters()) {
            json::Object PO;
            PO["d"] = declId(P);
            PO["n"] = P->getNameAsString();
            PO["t"] = ty(P->getType());
            std::string c = cty(P->getType());
            if (c != ty(P->getType())) PO["ct"] = c;
            Ps.push_back(std::move(PO));
        }
        O["params"] = std::move(Ps);
        // constructor initialisers (rare in gdstk)
        O["body"] = emit(FD->getBody());
        O["nstmts"] = nextStmt - 1;
        O["cfg"] = emitCFG(FD);
        return std::move(O);
    }

    json::Value emitFields(const RecordDecl* R) {
        json::Array Fs;
        for (const Decl* D : R->decls()) {
            if (auto* F = dyn_cast<FieldDecl>(D)) {
                json::Object FO;
                FO["d"] = declId(F);
                FO["n"] = F->getNameAsString();
                FO["t"] = ty(F->getType());
                FO["ct"] = cty(F->getType());
                FO["l"] = (int64_t)lineOf(F->getLocation());
                if (F->isAnonymousStructOrUnion()) {
                    const RecordDecl* AR = F->getType()->getAsRecordDecl();
                    FO["anon"] = AR->isUnion() ? "union" : "struct";
                    FO["fields"] = emitFields(AR);
                }
                if (F->hasInClassInitializer()) FO["hasinit"] = true;
                Fs.push_back(std::move(FO));
            }
        }
        return std::move(Fs);
    }
};

class Visitor : public RecursiveASTVisitor<Visitor> {
   public:
    Emitter& Em;
    json::Array Funcs, Recs, Enums, Globals;
    std::set<const Decl*> seen;
    Visitor(Emitter& E) : Em(E) {}
    bool shouldVisitTemplateInstantiations() const { return true; }
    bool shouldVisitImplicitCode() const { return false; }

    bool VisitFunctionDecl(FunctionDecl* FD) {
        if (!FD->doesThisDeclarationHaveABody()) return true;
        if (FD->isDependentContext()) return true;
        if (!Em.underRoot(Em.fileOf(FD->getLocation()))) return true;
        if (!seen.insert(FD).second) return true;
        if (FD->isImplicit() || FD->isDefaulted()) return true;
        Funcs.push_back(Em.emitFunction(FD));
        return true;
    }
    // a lambda's body is its call operator: emitted like a function (marked), so that a computation factored into a
    // local lambda can be put back where it is called (N-LAMBDA / N-INLINE)
    bool VisitLambdaExpr(LambdaExpr* LE) {
        CXXMethodDecl* M = LE->getCallOperator();
        if (!M || !M->doesThisDeclarationHaveABody() || M->isDependentContext()) return true;
        if (!Em.underRoot(Em.fileOf(M->getLocation()))) return true;
        if (!seen.insert(M).second) return true;
        json::Value V = Em.emitFunction(M);
        if (auto* O = V.getAsObject()) (*O)["lambda"] = true;
        Funcs.push_back(std::move(V));
        return true;
    }
    bool VisitRecordDecl(RecordDecl* R) {
        if (!R->isCompleteDefinition()) return true;
        if (R->isAnonymousStructOrUnion()) return true;
        if (R->isDependentContext()) return true;
        if (!Em.underRoot(Em.fileOf(R->getLocation()))) return true;
        if (!seen.insert(R).second) return true;
        json::Object O;
        O["qn"] = R->getQualifiedNameAsString();
        O["t"] = Em.ty(Em.Ctx.getRecordType(R));
        O["file"] = Em.absPath(Em.fileOf(R->getLocation()));
        O["line"] = (int64_t)Em.lineOf(R->getLocation());
        O["union"] = R->isUnion();
        O["fields"] = Em.emitFields(R);
        if (!R->isInvalidDecl() && R->getDefinition() && !R->isDependentType()) {
            const ASTRecordLayout& L = Em.Ctx.getASTRecordLayout(R);
            O["size"] = (int64_t)L.getSize().getQuantity();
        }
        Recs.push_back(std::move(O));
        return true;
    }
    bool VisitEnumDecl(EnumDecl* E) {
        if (!E->isCompleteDefinition()) return true;
        if (!Em.underRoot(Em.fileOf(E->getLocation()))) return true;
        if (!seen.insert(E).second) return true;
        json::Object O;
        O["qn"] = E->getQualifiedNameAsString();
        O["file"] = Em.absPath(Em.fileOf(E->getLocation()));
        O["line"] = (int64_t)Em.lineOf(E->getLocation());
        json::Array Cs;
        for (const EnumConstantDecl* C : E->enumerators()) {
            json::Object CO;
            CO["n"] = C->getNameAsString();
            CO["v"] = (int64_t)C->getInitVal().getExtValue();
            Cs.push_back(std::move(CO));
        }
        O["consts"] = std::move(Cs);
        Enums.push_back(std::move(O));
        return true;
    }
    bool VisitVarDecl(VarDecl* V) {
        if (!V->isFileVarDecl()) return true;
        if (V->getDeclContext()->isDependentContext()) return true;
        if (!Em.underRoot(Em.fileOf(V->getLocation()))) return true;
        if (!V->hasInit()) return true;
        if (!seen.insert(V).second) return true;
        json::Object O;
        O["qn"] = V->getQualifiedNameAsString();
        O["d"] = Em.declId(V);
        O["t"] = Em.ty(V->getType());
        O["file"] = Em.absPath(Em.fileOf(V->getLocation()));
        O["line"] = (int64_t)Em.lineOf(V->getLocation());
        Em.stmtIds.clear();
        Em.nextStmt = 1;
        O["init"] = Em.emit(V->getInit());
        Globals.push_back(std::move(O));
        return true;
    }
};

class Consumer : public ASTConsumer {
   public:
    std::string InFile;
    Consumer(StringRef F) : InFile(F.str()) {}
    void HandleTranslationUnit(ASTContext& Ctx) override {
        if (Ctx.getDiagnostics().hasErrorOccurred()) {
            llvm::errs() << "gx: errors in " << InFile << "; no facts written\n";
            return;
        }
        Emitter Em(Ctx);
        Visitor V(Em);
        V.TraverseDecl(Ctx.getTranslationUnitDecl());
        json::Object Top;
        Top["unit"] = Em.absPath(InFile);
        Top["functions"] = std::move(V.Funcs);
        Top["records"] = std::move(V.Recs);
        Top["enums"] = std::move(V.Enums);
        Top["globals"] = std::move(V.Globals);
        std::string base = llvm::sys::path::filename(InFile).str();
        std::string out = OutDir + "/" + base + ".json";
        std::error_code EC;
        llvm::raw_fd_ostream OS(out, EC);
        if (EC) {
            llvm::errs() << "gx: cannot write " << out << "\n";
            return;
        }
        OS << json::Value(std::move(Top));
        OS << "\n";
    }
};

class Action : public ASTFrontendAction {
   public:
    std::unique_ptr<ASTConsumer> CreateASTConsumer(CompilerInstance&, StringRef F) override {
        return std::make_unique<Consumer>(F);
    }
};

}  // namespace

int main(int argc, const char** argv) {
    auto Opt = CommonOptionsParser::create(argc, argv, Cat);
    if (!Opt) {
        llvm::errs() << llvm::toString(Opt.takeError()) << "\n";
        return 2;
    }
    ClangTool Tool(Opt->getCompilations(), Opt->getSourcePathList());
    int rc = Tool.run(newFrontendActionFactory<Action>().get());
    return rc ? 2 : 0;
}
