#!/bin/bash
# tools/import_benign.sh <agent-out-dir> <name-prefix>   copy patch<k>.diff/demo<k>.cpp/meta<k>.json to benign/<prefix>-<k>/ and confirm each
OUT=$1; PRE=$2
cd "$(dirname "$0")/.."
for k in 1 2 3; do
  [ -f $OUT/patch$k.diff ] || continue
  d=benign/$PRE-$k; mkdir -p $d
  cp $OUT/patch$k.diff $d/patch.diff; cp $OUT/demo$k.cpp $d/demo.cpp; cp $OUT/meta$k.json $d/agent_meta.json 2>/dev/null
  tools/confirm_benign.sh $d >/dev/null 2>&1
  python3 tools/benignmeta.py $d
done
