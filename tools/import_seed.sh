#!/bin/bash
# tools/import_seed.sh <agent-out-dir> <k> <seed-id>   e.g. /tmp/seed2/C14/out 1 C14-3
set -e
OUT=$1; K=$2; ID=$3
D=/verif/seeded/$ID
mkdir -p $D
cp $OUT/patch$K.diff $D/patch.diff
cp $OUT/demo$K.cpp $D/demo.cpp
cp $OUT/meta$K.json $D/agent_meta.json
bash /verif/tools/confirm_seed.sh $D | tail -2
