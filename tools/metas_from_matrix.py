#!/usr/bin/env python3
"""tools/metas_from_matrix.py <matrix.json> [--force] <seed-id>...  - write seeded/<id>/meta.json (tools/seedmeta.py) from what the
checks reported in a patch matrix: every check with a violation is recorded as `caught` by its first rule; the check of the seed's own
property is recorded as `missed` when it reported nothing (or only gave up)."""
import json, os, subprocess, sys
args = sys.argv[1:]
force = '--force' in args
args = [a for a in args if a != '--force']
mx = {r['patch']: r for r in json.load(open(args[0]))}
root = os.path.join(os.path.dirname(os.path.abspath(__file__)), '..', 'seeded')
for sid in args[1:]:
    d = os.path.join(root, sid)
    if os.path.exists(os.path.join(d, 'meta.json')) and not force:
        continue
    r = mx.get(sid)
    if r is None:
        print(sid, 'not in the matrix')
        continue
    own = sid.split('-')[0]
    spec = []
    for chk, rules in sorted((r.get('rules') or {}).items()):
        real = [x for x in rules if x[0] not in ('BROKEN', 'INTERNAL')]
        if real:
            spec.append('%s:caught:%s' % (chk, real[0][0]))
    if not any(s.startswith(own + ':') for s in spec):
        spec.append('%s:missed:-' % own)
    subprocess.run([sys.executable, os.path.join(os.path.dirname(os.path.abspath(__file__)), 'seedmeta.py'), d, own] + spec, check=True)
