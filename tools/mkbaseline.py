#!/usr/bin/env python3
"""tools/mkbaseline.py   record, for every function of the current /repo tree, the ordered (name, type) list of its locals
(after structural normalisation) in sa/baseline_locals.json. Run on the pinned tree (and again after a fix: commit to /repo).
The file is only used to relabel locals (sa/normal.py, N-NAMES); it takes no part in any verdict."""
import json
import os
import sys
HERE = os.path.dirname(os.path.dirname(os.path.abspath(__file__)))
sys.path.insert(0, HERE)
os.environ['GDSTK_SA_NO_RENAME'] = '1'
from sa import facts, normal
db = facts.load()
out = {}
for f in db.functions:
    if f.body is None:
        continue
    ls = [(v.n, v.t or '', normal.init_shape(v)) for v in normal.locals_of(f)]
    if ls:
        out[normal.fkey(f)] = ls
out['__relations__'] = {normal.fkey(f): normal.relations_of(f) for f in db.functions if f.body is not None and normal.relations_of(f)}
out['__functions__'] = sorted({normal.fkey(f) for f in db.functions if f.body is not None})
json.dump(out, open(os.path.join(HERE, 'sa', 'baseline_locals.json'), 'w'), indent=0, sort_keys=True)
print(len(out), 'functions with locals recorded')
