#!/usr/bin/env python3
"""Regenerate /verif/MANIFEST.json from the tables below (keeps the interface file valid)."""
import json, os, subprocess
V = os.path.dirname(os.path.dirname(os.path.abspath(__file__)))
props = [json.loads(l) for l in open(os.path.join(V, 'properties.jsonl'))]

CHECKS = {
 'C18': dict(
   text='Decides, for every CFG path of the eight file readers, the structural necessary conditions of crash/leak/false-success freedom: no exit edge carries an open FILE* (R-PAIR, incl. the ref-counted RawSource idiom and its guard), every loop makes progress on every path (R-LOOP), nullable results are tested before use (R-NULL), success returns are dominated by the ENDLIB arm and error exits return an empty value and set the error code (R-MUSTPASS), every gdsii_read_record result is checked and its short-read tests compare the fread result with the requested count (R-ERRCHK, linear normalisation), copies into fixed-size objects are bounded (R-BOUND). All paths / all exits, no input bound. Does not decide absence of every memory error for every byte pattern, nor checksum coincidences.',
   note='Trusted: clang 14 front end and clang::CFG, tools/gx/gx.cc, sa/*.py; libc model (fopen may return NULL, fclose releases, fread returns item count); callee summaries only for functions under /repo. Path-insensitive joins only add states, so a pass covers all feasible paths.',
   technique='custom typestate / dominance / loop-progress dataflow over the clang CFG (libTooling extractor + Python rules)',
   design='§4 C18'),
 'C20': dict(
   text='Decides structural necessary conditions of the container models on all paths: (1) check-then-use null contradictions in every property-list function (a pointer the function itself null-tests, re-assigned from a list tail and dereferenced untested); (2) the four open-addressing tables (Map<T>, Set<T>, TagMap, StyleMap; every member instantiated explicitly) have control skeletons equal to a frozen reference after abstracting the table-specific empty-slot predicate (probe wrap at items+capacity, load-factor test before get_slot, count++ only on an empty slot, del = empty + count-- + cluster re-insertion until the first empty slot, resize re-inserts every occupied item then clears, next bounded by items+capacity), payload obligations (old slot emptied, every item field written), count==0 guard before every look-up; (3) Array<T> bookkeeping; (4) property-list copies append at the tail and deep-copy. Does not decide equivalence with an abstract map/multimap over operation histories, and nothing about sort (value-dependent).',
   note='Trusted: clang 14 front end, gx, sa rules; the frozen reference skeletons in sa/props/C20.py were confirmed by reading the pinned tree (a consistent refactor of all tables is reported as differing from the reference, exit 1 naming the method, to be re-confirmed by a human); hash() not analysed.',
   technique='clone-family comparison with predicate abstraction over typed ASTs + nullness dataflow (check-then-use contradiction) over the clang CFG',
   design='§4 C20'),
}
NA = {}
DEFAULT_NA = 'rules designed in DESIGN.md §4 but not implemented yet; not claimed until they are'

checks = []
for p in props:
    c = CHECKS.get(p['id'])
    if not c:
        continue
    checks.append({
        'property_id': p['id'],
        'quick_cmd': './check %s --tier quick' % p['id'],
        'thorough_cmd': './check %s --tier thorough' % p['id'],
        'evidence_file': 'evidence/%s.json' % p['id'],
        'replay_cmd_template': 'python3 tools/show_report.py {path}',
        'engine': 'gx+sa',
        'level_claimed': {'category': 'other', 'text': c['text'], 'design_ref': c['design']},
        'level_note': c['note'],
        'technique': c['technique'],
    })
m = {
 'version': 1,
 'setup_cmd': 'make -C /verif',
 'hooks': {'guard': 'HEITZMANN_GDSTK_VERIF', 'enable': 'none needed: the analysis parses unmodified sources (no hook commits)',
           'baseline_off_cmd': 'cmake -G Ninja -S /repo -B /repo/_build -DCMAKE_BUILD_TYPE=RelWithDebInfo >/dev/null && cmake --build /repo/_build --target all examples >/dev/null && ctest --test-dir /repo/_build -j8 --timeout 900',
           'source_commits': [], 'add_only': True},
 'engines': [{'name': 'gx+sa', 'path': 'tools/gx/gx.cc, sa/', 'serves_properties': [c['property_id'] for c in checks],
              'kind_free_text': 'libTooling fact extractor (typed mini-AST + clang CFG per function, record layouts, enums) and a Python rule library (typestate, dominance, loop progress, nullness, tables, clone families); quick tier = all obligations + positive controls; thorough tier adds the seeded self-test variants on a scratch copy and generic second-opinion tools (evidence only)'}],
 'checks': checks,
 'notes': 'Static analysis only: nothing from /repo is executed by any registered check. Exit 0 ok / 1 VIOLATION / 2 analysis broken (anchor vanished, instance minimum not met, control silent). Genuine defects found are in known_findings.json (all fixed by fix: commits in /repo); replays/ holds concrete demonstrations (not checks). seeded/ holds independently produced breaking changes and which rule catches each.',
 'not_applicable': [{'property_id': p['id'], 'reason': NA.get(p['id'], DEFAULT_NA)} for p in props if p['id'] not in CHECKS],
}
json.dump(m, open(os.path.join(V, 'MANIFEST.json'), 'w'), indent=1)
print('checks:', [c['property_id'] for c in checks], 'n/a:', len(m['not_applicable']))
