#!/usr/bin/env python3
"""Regenerate /verif/MANIFEST.json from the tables below (keeps the interface file valid)."""
import json, os, subprocess
V = os.path.dirname(os.path.dirname(os.path.abspath(__file__)))
props = [json.loads(l) for l in open(os.path.join(V, 'properties.jsonl'))]

import importlib, sys, glob
sys.path.insert(0, V)
CHECKS = {}
for f in sorted(glob.glob(os.path.join(V, 'sa', 'props', 'C*.py'))):
    pid = os.path.basename(f)[:-3]
    mod = importlib.import_module('sa.props.' + pid)
    if hasattr(mod, 'MANIFEST'):
        CHECKS[pid] = mod.MANIFEST
NA = {}
DEFAULT_NA = 'rules designed in DESIGN.md §4 but not implemented yet; not claimed until they are'

checks = []
for p in props:
    c = CHECKS.get(p['id'])
    if not c:
        continue
    checks.append({
        'property_id': p['id'],
        'quick_cmd': './check %s --tier quick' % p['id'],
        'thorough_cmd': './check %s --tier thorough' % p['id'],
        'evidence_file': 'evidence/%s.json' % p['id'],
        'replay_cmd_template': 'python3 tools/show_report.py {path}',
        'engine': 'gx+sa',
        'level_claimed': {'category': 'other', 'text': c['text'], 'design_ref': c['design']},
        'level_note': c['note'],
        'technique': c['technique'],
    })
m = {
 'version': 1,
 'setup_cmd': 'make -C /verif',
 'hooks': {'guard': 'HEITZMANN_GDSTK_VERIF', 'enable': 'none needed: the analysis parses unmodified sources (no hook commits)',
           'baseline_off_cmd': 'cmake -G Ninja -S /repo -B /repo/_build -DCMAKE_BUILD_TYPE=RelWithDebInfo >/dev/null && cmake --build /repo/_build --target all examples >/dev/null && ctest --test-dir /repo/_build -j8 --timeout 900',
           'source_commits': [], 'add_only': True},
 'engines': [{'name': 'gx+sa', 'path': 'tools/gx/gx.cc, sa/', 'serves_properties': [c['property_id'] for c in checks],
              'kind_free_text': 'libTooling fact extractor (typed mini-AST + clang CFG per function, record layouts, enums) and a Python rule library (typestate, dominance, loop progress, nullness, tables, clone families); quick tier = all obligations + positive controls; thorough tier adds the seeded self-test variants on a scratch copy and generic second-opinion tools (evidence only)'}],
 'checks': checks,
 'notes': 'Static analysis only: nothing from /repo is executed by any registered check. Exit 0 ok / 1 VIOLATION / 2 analysis broken (anchor vanished, instance minimum not met, control silent). Genuine defects found are in known_findings.json (all fixed by fix: commits in /repo); replays/ holds concrete demonstrations (not checks). seeded/ holds independently produced breaking changes and which rule catches each.',
 'not_applicable': [{'property_id': p['id'], 'reason': NA.get(p['id'], DEFAULT_NA)} for p in props if p['id'] not in CHECKS],
}
json.dump(m, open(os.path.join(V, 'MANIFEST.json'), 'w'), indent=1)
print('checks:', [c['property_id'] for c in checks], 'n/a:', len(m['not_applicable']))
