#!/usr/bin/env python3
"""Create a self-test patch: tools/mkst.py <pid> <name> <repo-relative-file> <<< JSON {"old":..., "new":..., "count":1, "expect_rule":..., "note":...}
The patch is a unified diff (-p1) against the current /repo tree; nothing in /repo is modified."""
import json, os, subprocess, sys, tempfile, shutil
pid, name, rel = sys.argv[1:4]
spec = json.load(sys.stdin)
src = open(os.path.join('/repo', rel)).read()
assert src.count(spec['old']) == spec.get('count', 1), 'old text occurs %d times' % src.count(spec['old'])
new = src.replace(spec['old'], spec['new'])
d = tempfile.mkdtemp()
try:
    os.makedirs(os.path.join(d, 'a', os.path.dirname(rel))); os.makedirs(os.path.join(d, 'b', os.path.dirname(rel)))
    open(os.path.join(d, 'a', rel), 'w').write(src); open(os.path.join(d, 'b', rel), 'w').write(new)
    p = subprocess.run(['diff', '-u', os.path.join('a', rel), os.path.join('b', rel)], cwd=d, stdout=subprocess.PIPE, text=True)
    out = os.path.join('/verif/selftest', pid); os.makedirs(out, exist_ok=True)
    open(os.path.join(out, name + '.patch'), 'w').write(p.stdout)
    json.dump({'expect': spec.get('expect', 'caught'), 'expect_rule': spec.get('expect_rule'), 'note': spec.get('note', '')}, open(os.path.join(out, name + '.json'), 'w'), indent=1)
    print('wrote', name, len(p.stdout.splitlines()), 'lines')
finally:
    shutil.rmtree(d)
