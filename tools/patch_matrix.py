#!/usr/bin/env python3
"""tools/patch_matrix.py [-j N] <patch-dir>...      (development aid, not a registered check)
For every directory holding a patch.diff: apply it to a scratch copy of the current /repo sources (outside /repo
and /verif), extract facts once and run every property module on it; print per patch which checks report a new
violation / become analysis-broken.  Used to see at a glance (a) which checks stay silent on behaviour-preserving
changes (benign/*) and (b) which checks catch a seeded change (seeded/*).  /repo itself is never touched."""
import argparse
import importlib
import json
import multiprocessing
import os
import shutil
import subprocess
import sys
import tempfile

HERE = os.path.dirname(os.path.dirname(os.path.abspath(__file__)))
sys.path.insert(0, HERE)
os.chdir(HERE)
PIDS = ['C%02d' % i for i in range(1, 21)]
if os.environ.get('GDSTK_MX_ONLY'):
    PIDS = os.environ['GDSTK_MX_ONLY'].split(',')          # restrict to some checks (development)


def one(path):
    import signal
    from sa import facts, core

    def _late(signum, frame):
        raise TimeoutError('no result after 300 s')
    signal.signal(signal.SIGALRM, _late)
    signal.alarm(300)
    try:
        return _one(path)
    except TimeoutError as e:
        name = os.path.basename(path.rstrip('/'))
        return {'patch': name, 'checks': {'ALL': ['BROKEN %s' % e]}, 'rules': {'ALL': [('BROKEN', str(e))]}}
    finally:
        signal.alarm(0)


def _one(path):
    from sa import facts, core
    name = os.path.basename(path.rstrip('/'))
    if os.path.isfile(path):
        name = os.path.basename(os.path.dirname(path)) + '/' + name
    patch = os.path.abspath(path if os.path.isfile(path) else os.path.join(path, 'patch.diff'))
    out = {'patch': name, 'checks': {}}
    d = tempfile.mkdtemp(prefix='gdstk-selftest.')
    try:
        for sub in ('src', 'include', 'external'):
            shutil.copytree(os.path.join(facts.REPO, sub), os.path.join(d, sub), symlinks=True)
        p = subprocess.run(['patch', '-p1', '-s', '-f', '--no-backup-if-mismatch', '-i', patch], cwd=d,
                           stdout=subprocess.PIPE, stderr=subprocess.STDOUT, text=True)
        if p.returncode != 0:
            out['error'] = 'does not apply'
            return out
        try:
            db2 = facts.load(d)
        except Exception as e:
            out['error'] = 'extraction: %s' % str(e)[:200]
            return out
        for pid in PIDS:
            mod = importlib.import_module('sa.props.' + pid)
            try:
                c2 = core.Ctx(pid, 'quick', db2, scratch=True)
                mod.run(c2)
                new = [o for o in c2.obs if o.status == 'violation']
                broken = [m for m in c2.mins if m[1] < m[2]] + [c for c in c2.controls if not c[1]] + list(c2.broken)
                if new:
                    out['checks'][pid] = ['%s %s @%s: %s' % (o.rule, o.key, o.loc, o.what[:160]) for o in new[:3]]
                    out.setdefault('rules', {})[pid] = sorted({(o.rule, o.key) for o in new})
                elif broken:
                    out['checks'][pid] = ['BROKEN %s' % str(broken[:2])[:200]]
                    out.setdefault('rules', {})[pid] = [('BROKEN', str(broken[0])[:120])]
            except facts.AnalysisBroken as e:
                out['checks'][pid] = ['BROKEN %s' % str(e)[:200]]
                out.setdefault('rules', {})[pid] = [('BROKEN', str(e)[:120])]
            except Exception as e:
                out['checks'][pid] = ['INTERNAL %s: %s' % (type(e).__name__, str(e)[:200])]
    finally:
        shutil.rmtree(d, ignore_errors=True)
    return out


def main():
    ap = argparse.ArgumentParser()
    ap.add_argument('-j', type=int, default=8)
    ap.add_argument('--json', default=None)
    ap.add_argument('dirs', nargs='+')
    a = ap.parse_args()
    with multiprocessing.Pool(a.j) as pool:
        res = []
        for r in pool.imap_unordered(one, a.dirs):
            res.append(r)
            line = r.get('error') or (', '.join(sorted(r['checks'])) or 'silent')
            print('%-34s %s' % (r['patch'], line), flush=True)
            for pid, reps in sorted(r['checks'].items()):
                for x in reps[:2]:
                    print('      %s: %s' % (pid, x[:230]), flush=True)
    if a.json:
        json.dump(sorted(res, key=lambda r: r['patch']), open(a.json, 'w'), indent=1)


if __name__ == '__main__':
    main()
