#!/usr/bin/env python3
"""tools/refresh_rules.py <matrix.json>  - compare a patch matrix with the expectations in seeded/*/meta.json and selftest/*/*.json:
print every expectation that is not met (a `caught` check without a violation), and bring the rule named in each meta up to date with
the rule that reports today (the name is documentation; the expectation `caught` is what the thorough tier enforces)."""
import glob, json, os, sys
root = os.path.join(os.path.dirname(os.path.abspath(__file__)), '..')
mx = {r['patch']: r for r in json.load(open(sys.argv[1]))}
bad = 0
for mp in sorted(glob.glob(os.path.join(root, 'seeded', '*', 'meta.json'))):
    sid = os.path.basename(os.path.dirname(mp))
    m = json.load(open(mp))
    r = mx.get(sid)
    if r is None:
        print('NOT RUN', sid)
        continue
    ch = False
    for chk, e in m.get('checked_by', {}).items():
        real = [x for x in (r.get('rules') or {}).get(chk, []) if x[0] not in ('BROKEN', 'INTERNAL')]
        if e['expect'] == 'caught':
            if not real:
                bad += 1
                print('REGRESSION %s: %s expected to catch it, reports %s' % (sid, chk, (r.get('checks') or {}).get(chk)))
            elif e.get('rule') not in {x[0] for x in real}:
                e['rule'] = real[0][0]
                ch = True
        elif e['expect'] == 'missed' and real:
            print('NOW CAUGHT %s by %s (%s)' % (sid, chk, real[0][0]))
            e['expect'], e['rule'] = 'caught', real[0][0]
            ch = True
    if ch:
        json.dump(m, open(mp, 'w'), indent=1)
for jp in sorted(glob.glob(os.path.join(root, 'selftest', '*', '*.json'))):
    pid = os.path.basename(os.path.dirname(jp))
    name = pid + '/' + os.path.basename(jp)[:-5] + '.patch'
    j = json.load(open(jp))
    r = mx.get(name)
    if r is None:
        print('NOT RUN', name)
        continue
    real = [x for x in (r.get('rules') or {}).get(pid, []) if x[0] not in ('BROKEN', 'INTERNAL')]
    anyrep = (r.get('checks') or {}).get(pid)
    if j.get('expect', 'caught') == 'caught' and not anyrep:
        bad += 1
        print('REGRESSION selftest %s: silent' % name)
    elif j.get('expect', 'caught') == 'caught' and real and j.get('expect_rule') not in {x[0] for x in real}:
        j['expect_rule'] = real[0][0]
        json.dump(j, open(jp, 'w'), indent=1)
    elif j.get('expect') == 'missed' and real:
        print('NOW CAUGHT selftest %s (%s)' % (name, real[0][0]))
print('unmet expectations:', bad)
