#!/usr/bin/env python3
"""tools/seedmeta.py <seeded-dir> <property> <expect:caught|missed> <rule-or-> — merge agent_meta.json + confirm.json into meta.json"""
import json, sys, os
d, prop, expect, rule = sys.argv[1:5]
am = json.load(open(os.path.join(d, 'agent_meta.json')))
cf = json.load(open(os.path.join(d, 'confirm.json')))
meta = {'property': prop, 'summary': am.get('summary'), 'needs': am.get('needs'),
        'origin': 'independent sub-agent given only the property text and a scratch worktree',
        'what_i_ran': 'tools/confirm_seed.sh %s (scratch worktree of /repo HEAD %s: demo rc=%s on the original; with the patch: build rc=%s, ctest "%s", demo rc=%s)' % (
            d, cf.get('repo_head'), cf.get('demo_original_rc'), cf.get('patched_build_rc'), cf.get('patched_ctest'), cf.get('demo_patched_rc')),
        'confirmed': cf.get('confirmed'),
        'checked_by': {prop: {'expect': expect, 'rule': None if rule == '-' else rule}}}
if len(sys.argv) > 5:
    meta['note'] = sys.argv[5]
json.dump(meta, open(os.path.join(d, 'meta.json'), 'w'), indent=1)
print(d, meta['confirmed'], expect)
