#!/usr/bin/env python3
"""tools/seedmeta.py <seeded-dir> <property> [<check-prop>:<caught|missed>:<rule-or->]... [--note text]
Merges agent_meta.json + confirm.json into meta.json. checked_by lists which registered check is
expected to catch (or documented to miss) the change; the self-test enforces `caught` entries."""
import json, sys, os
args = sys.argv[1:]
note = None
if '--note' in args:
    i = args.index('--note'); note = args[i + 1]; args = args[:i] + args[i + 2:]
d, prop = args[0], args[1]
am = json.load(open(os.path.join(d, 'agent_meta.json')))
cf = json.load(open(os.path.join(d, 'confirm.json')))
old = {}
if os.path.exists(os.path.join(d, 'meta.json')):
    old = json.load(open(os.path.join(d, 'meta.json')))
cb = old.get('checked_by', {})
for t in args[2:]:
    cp, ex, rule = t.split(':', 2)
    cb[cp] = {'expect': ex, 'rule': None if rule == '-' else rule}
meta = {'property': prop, 'summary': am.get('summary'), 'needs': am.get('needs'),
        'origin': 'independent sub-agent given only the property text and a scratch worktree',
        'what_i_ran': 'tools/confirm_seed.sh %s (scratch worktree of /repo HEAD %s: demo rc=%s on the original; with the patch: build rc=%s, ctest "%s", demo rc=%s)' % (
            d, cf.get('repo_head'), cf.get('demo_original_rc'), cf.get('patched_build_rc'), cf.get('patched_ctest'), cf.get('demo_patched_rc')),
        'confirmed': cf.get('confirmed'), 'checked_by': cb}
if note or old.get('note'):
    meta['note'] = note or old.get('note')
json.dump(meta, open(os.path.join(d, 'meta.json'), 'w'), indent=1)
print(d, meta['confirmed'], cb)
