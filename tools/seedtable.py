#!/usr/bin/env python3
"""Print the markdown table of seeded changes and the checks expected to catch them (from seeded/*/meta.json)."""
import json, glob, os, re
rows = []
for d in sorted(glob.glob('/verif/seeded/*/'), key=lambda p: (p.split('/')[-2].split('-')[0], int(p.split('/')[-2].split('-')[1]))):
    m = json.load(open(d + 'meta.json'))
    sid = os.path.basename(d.rstrip('/'))
    summ = (m.get('summary') or '').replace('\n', ' ')
    site = re.split(r':(?!:)(?<!::)\s', summ)[0]
    site = re.sub(r'\s+', ' ', site)[:90]
    cb = m.get('checked_by', {})
    caught = ', '.join('%s %s' % (k, v['rule']) for k, v in cb.items() if v['expect'] == 'caught')
    missed = ', '.join(k for k, v in cb.items() if v['expect'] == 'missed')
    rows.append('| %s | %s | %s | %s |' % (sid, site.replace('|', '/'), caught or '—', missed or ''))
print('| seed | site | caught by (check rule) | not caught by |')
print('|------|------|------------------------|---------------|')
print('\n'.join(rows))
