#!/usr/bin/env python3
"""Print a violation report written by ./check (the `replay=` path)."""
import json, sys
r = json.load(open(sys.argv[1]))
for o in r['violations']:
    print('%s [%s] %s\n    %s' % (o['loc'], o['rule'], o['instance'], o['what']))
    if o.get('path'):
        print('    path: ' + ' -> '.join(o['path']))
sys.exit(1 if r['violations'] else 0)
