#!/bin/bash
# tools/trybenign.sh <benign-name>  - apply the behaviour-preserving patch to /repo, run every quick check, report any alarm, undo
N=$1
git -C /repo apply /verif/benign/$N/patch.diff || exit 2
for i in 01 02 03 04 05 06 07 08 09 10 11 12 13 14 15 16 17 18 19 20; do
  r=$(cd /verif && ./check C$i --tier quick 2>&1 | grep -E "^  violation|BROKEN" | head -3 | cut -c1-260)
  [ -n "$r" ] && echo "$N vs C$i: $r"
done
git -C /repo checkout -- .
echo "$N done"
