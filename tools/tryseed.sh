#!/bin/bash
# tools/tryseed.sh <seed-id> <check>...   apply the seed to /repo, run the quick tier of each check, undo
S=$1; shift
git -C /repo apply /verif/seeded/$S/patch.diff || exit 2
for c in "$@"; do
  r=$(cd /verif && ./check $c --tier quick 2>&1 | grep -E "^  violation|BROKEN" | head -2 | cut -c1-220)
  if [ -z "$r" ]; then echo "$S vs $c: MISSED"; else echo "$S vs $c: $r"; fi
done
git -C /repo checkout -- .
